package main

// SMT term layer: a small typed s-expression AST with simplifying constructors and
// an SMT-LIB printer that collects the declarations a query needs.

import (
	"fmt"
	"math/big"
	"sort"
	"strings"
)

const (
	SInt  = "Int"
	SBool = "Bool"
)

func ArrSort(elem string) string { return "(Array Int " + elem + ")" }

func ElemSort(arr string) string {
	if !strings.HasPrefix(arr, "(Array Int ") {
		panic("not an array sort: " + arr)
	}
	return arr[len("(Array Int ") : len(arr)-1]
}

func IsArrSort(s string) bool { return strings.HasPrefix(s, "(Array Int ") }

type Term struct {
	Op    string // "sym", "int", "true", "false", "uf", "forall", "exists", or an SMT operator
	Name  string // sym / uf name
	Args  []*Term
	Sort  string
	Int   *big.Int
	Bound []*Term // forall binders (sym terms)
	str   string
}

var (
	tTrue  = &Term{Op: "true", Sort: SBool}
	tFalse = &Term{Op: "false", Sort: SBool}
)

func quoteSym(s string) string {
	ok := len(s) > 0
	for _, c := range s {
		if !(c >= 'a' && c <= 'z' || c >= 'A' && c <= 'Z' || c >= '0' && c <= '9' || c == '_' || c == '.' || c == '!' || c == '$') {
			ok = false
			break
		}
	}
	if ok && !(s[0] >= '0' && s[0] <= '9') {
		return s
	}
	s = strings.ReplaceAll(s, "|", "/")
	s = strings.ReplaceAll(s, "\\", "/")
	return "|" + s + "|"
}

func Sym(name, sort string) *Term { return &Term{Op: "sym", Name: name, Sort: sort} }

func IntLit(n int64) *Term { return &Term{Op: "int", Int: big.NewInt(n), Sort: SInt} }

func BigLit(n *big.Int) *Term { return &Term{Op: "int", Int: new(big.Int).Set(n), Sort: SInt} }

func BoolLit(b bool) *Term {
	if b {
		return tTrue
	}
	return tFalse
}

func Pow2(n uint) *Term { return BigLit(new(big.Int).Lsh(big.NewInt(1), n)) }

func UF(name, sort string, args ...*Term) *Term {
	return &Term{Op: "uf", Name: name, Sort: sort, Args: args}
}

func (t *Term) IsLit() bool   { return t.Op == "int" }
func (t *Term) IsTrue() bool  { return t.Op == "true" }
func (t *Term) IsFalse() bool { return t.Op == "false" }

func (t *Term) String() string {
	if t.str != "" {
		return t.str
	}
	var s string
	switch t.Op {
	case "sym":
		s = quoteSym(t.Name)
	case "int":
		if t.Int.Sign() < 0 {
			s = "(- " + new(big.Int).Neg(t.Int).String() + ")"
		} else {
			s = t.Int.String()
		}
	case "true", "false":
		s = t.Op
	case "uf":
		if len(t.Args) == 0 {
			s = quoteSym(t.Name)
		} else {
			var b strings.Builder
			b.WriteString("(" + quoteSym(t.Name))
			for _, a := range t.Args {
				b.WriteString(" " + a.String())
			}
			b.WriteString(")")
			s = b.String()
		}
	case "forall", "exists":
		var b strings.Builder
		b.WriteString("(" + t.Op + " (")
		for _, v := range t.Bound {
			b.WriteString("(" + quoteSym(v.Name) + " " + v.Sort + ")")
		}
		b.WriteString(") " + t.Args[0].String() + ")")
		s = b.String()
	case "constarr":
		s = "((as const " + t.Sort + ") " + t.Args[0].String() + ")"
	default:
		var b strings.Builder
		b.WriteString("(" + t.Op)
		for _, a := range t.Args {
			b.WriteString(" " + a.String())
		}
		b.WriteString(")")
		s = b.String()
	}
	t.str = s
	return s
}

func same(a, b *Term) bool { return a == b || a.String() == b.String() }

func mk(op, sort string, args ...*Term) *Term { return &Term{Op: op, Sort: sort, Args: args} }

func Not(a *Term) *Term {
	switch {
	case a.IsTrue():
		return tFalse
	case a.IsFalse():
		return tTrue
	case a.Op == "not":
		return a.Args[0]
	}
	return mk("not", SBool, a)
}

func And(as ...*Term) *Term {
	var out []*Term
	for _, a := range as {
		if a == nil || a.IsTrue() {
			continue
		}
		if a.IsFalse() {
			return tFalse
		}
		if a.Op == "and" {
			out = append(out, a.Args...)
		} else {
			out = append(out, a)
		}
	}
	switch len(out) {
	case 0:
		return tTrue
	case 1:
		return out[0]
	}
	return mk("and", SBool, out...)
}

func Or(as ...*Term) *Term {
	var out []*Term
	for _, a := range as {
		if a == nil || a.IsFalse() {
			continue
		}
		if a.IsTrue() {
			return tTrue
		}
		if a.Op == "or" {
			out = append(out, a.Args...)
		} else {
			out = append(out, a)
		}
	}
	switch len(out) {
	case 0:
		return tFalse
	case 1:
		return out[0]
	}
	return mk("or", SBool, out...)
}

func Implies(a, b *Term) *Term {
	if a.IsTrue() {
		return b
	}
	if a.IsFalse() || b.IsTrue() {
		return tTrue
	}
	if b.IsFalse() {
		return Not(a)
	}
	return mk("=>", SBool, a, b)
}

func Eq(a, b *Term) *Term {
	if a.Sort != b.Sort {
		panic(fmt.Sprintf("Eq sort mismatch: %s:%s vs %s:%s", a, a.Sort, b, b.Sort))
	}
	if same(a, b) {
		return tTrue
	}
	if a.IsLit() && b.IsLit() {
		return BoolLit(a.Int.Cmp(b.Int) == 0)
	}
	if a.Sort == SBool {
		if a.IsTrue() {
			return b
		}
		if b.IsTrue() {
			return a
		}
		if a.IsFalse() {
			return Not(b)
		}
		if b.IsFalse() {
			return Not(a)
		}
	}
	return mk("=", SBool, a, b)
}

func Neq(a, b *Term) *Term { return Not(Eq(a, b)) }

func Ite(c, a, b *Term) *Term {
	if c.IsTrue() {
		return a
	}
	if c.IsFalse() {
		return b
	}
	if same(a, b) {
		return a
	}
	if a.Sort == SBool {
		if a.IsTrue() && b.IsFalse() {
			return c
		}
		if a.IsFalse() && b.IsTrue() {
			return Not(c)
		}
	}
	return mk("ite", a.Sort, c, a, b)
}

func Select(a, i *Term) *Term {
	es := ElemSort(a.Sort)
	for a.Op == "store" {
		j := a.Args[1]
		if same(i, j) {
			return a.Args[2]
		}
		if i.IsLit() && j.IsLit() {
			a = a.Args[0] // distinct literals
			continue
		}
		break
	}
	if a.Op == "constarr" {
		return a.Args[0]
	}
	return mk("select", es, a, i)
}

func Store(a, i, v *Term) *Term {
	if ElemSort(a.Sort) != v.Sort {
		panic(fmt.Sprintf("Store sort mismatch: array %s value %s:%s", a.Sort, v, v.Sort))
	}
	if a.Op == "store" && same(a.Args[1], i) {
		a = a.Args[0]
	}
	return mk("store", a.Sort, a, i, v)
}

func ConstArr(sort string, v *Term) *Term { return &Term{Op: "constarr", Sort: sort, Args: []*Term{v}} }

func arith(op string, a, b *Term) *Term {
	if a.IsLit() && b.IsLit() {
		r := new(big.Int)
		switch op {
		case "+":
			return BigLit(r.Add(a.Int, b.Int))
		case "-":
			return BigLit(r.Sub(a.Int, b.Int))
		case "*":
			return BigLit(r.Mul(a.Int, b.Int))
		}
	}
	switch op {
	case "+":
		if a.IsLit() && a.Int.Sign() == 0 {
			return b
		}
		if b.IsLit() && b.Int.Sign() == 0 {
			return a
		}
		// (x + c1) + c2
		if b.IsLit() && a.Op == "+" && len(a.Args) == 2 && a.Args[1].IsLit() {
			return arith("+", a.Args[0], BigLit(new(big.Int).Add(a.Args[1].Int, b.Int)))
		}
		if b.IsLit() && a.Op == "-" && len(a.Args) == 2 && a.Args[1].IsLit() {
			return arith("+", a.Args[0], BigLit(new(big.Int).Sub(b.Int, a.Args[1].Int)))
		}
		if b.IsLit() && b.Int.Sign() < 0 {
			return arith("-", a, BigLit(new(big.Int).Neg(b.Int)))
		}
	case "-":
		if b.IsLit() && b.Int.Sign() == 0 {
			return a
		}
		if same(a, b) {
			return IntLit(0)
		}
		if b.IsLit() && a.Op == "+" && len(a.Args) == 2 && a.Args[1].IsLit() {
			return arith("+", a.Args[0], BigLit(new(big.Int).Sub(a.Args[1].Int, b.Int)))
		}
		if b.IsLit() && b.Int.Sign() < 0 {
			return arith("+", a, BigLit(new(big.Int).Neg(b.Int)))
		}
	case "*":
		if a.IsLit() && a.Int.Cmp(big.NewInt(1)) == 0 {
			return b
		}
		if b.IsLit() && b.Int.Cmp(big.NewInt(1)) == 0 {
			return a
		}
	}
	return mk(op, SInt, a, b)
}

func Add(a, b *Term) *Term { return arith("+", a, b) }
func Sub(a, b *Term) *Term { return arith("-", a, b) }
func Mul(a, b *Term) *Term { return arith("*", a, b) }

func Div(a, b *Term) *Term { // SMT-LIB integer division (floor for positive divisor)
	if a.IsLit() && b.IsLit() && b.Int.Sign() > 0 && a.Int.Sign() >= 0 {
		return BigLit(new(big.Int).Div(a.Int, b.Int))
	}
	return mk("div", SInt, a, b)
}

func Mod(a, b *Term) *Term {
	if a.IsLit() && b.IsLit() && b.Int.Sign() > 0 {
		return BigLit(new(big.Int).Mod(a.Int, b.Int))
	}
	return mk("mod", SInt, a, b)
}

func cmp(op string, a, b *Term) *Term {
	if a.IsLit() && b.IsLit() {
		c := a.Int.Cmp(b.Int)
		switch op {
		case "<":
			return BoolLit(c < 0)
		case "<=":
			return BoolLit(c <= 0)
		case ">":
			return BoolLit(c > 0)
		case ">=":
			return BoolLit(c >= 0)
		}
	}
	if same(a, b) {
		return BoolLit(op == "<=" || op == ">=")
	}
	return mk(op, SBool, a, b)
}

func Lt(a, b *Term) *Term { return cmp("<", a, b) }
func Le(a, b *Term) *Term { return cmp("<=", a, b) }
func Gt(a, b *Term) *Term { return cmp(">", a, b) }
func Ge(a, b *Term) *Term { return cmp(">=", a, b) }

func Forall(bound []*Term, body *Term) *Term {
	if body.IsTrue() {
		return tTrue
	}
	return &Term{Op: "forall", Sort: SBool, Bound: bound, Args: []*Term{body}}
}

// Subst replaces sym terms by name.
func Subst(t *Term, m map[string]*Term) *Term {
	if len(m) == 0 {
		return t
	}
	switch t.Op {
	case "sym":
		if r, ok := m[t.Name]; ok {
			return r
		}
		return t
	case "int", "true", "false":
		return t
	}
	changed := false
	args := make([]*Term, len(t.Args))
	for i, a := range t.Args {
		args[i] = Subst(a, m)
		if args[i] != a {
			changed = true
		}
	}
	if !changed {
		return t
	}
	return rebuild(t, args)
}

// rebuild re-applies the simplifying constructors.
func rebuild(t *Term, args []*Term) *Term {
	switch t.Op {
	case "and":
		return And(args...)
	case "or":
		return Or(args...)
	case "not":
		return Not(args[0])
	case "=>":
		return Implies(args[0], args[1])
	case "=":
		return Eq(args[0], args[1])
	case "ite":
		return Ite(args[0], args[1], args[2])
	case "select":
		return Select(args[0], args[1])
	case "store":
		return Store(args[0], args[1], args[2])
	case "+", "-", "*":
		if len(args) == 2 {
			return arith(t.Op, args[0], args[1])
		}
	case "<", "<=", ">", ">=":
		return cmp(t.Op, args[0], args[1])
	case "div":
		return Div(args[0], args[1])
	case "mod":
		return Mod(args[0], args[1])
	}
	n := *t
	n.Args = args
	n.str = ""
	return &n
}

// ---- declarations -------------------------------------------------------------------

type declSet struct {
	consts map[string]string   // name -> sort
	funs   map[string][]string // name -> arg sorts..., result sort
	bound  map[string]int
}

func (d *declSet) walk(t *Term) {
	switch t.Op {
	case "sym":
		if d.bound[t.Name] > 0 {
			return
		}
		if s, ok := d.consts[t.Name]; ok && s != t.Sort {
			panic(fmt.Sprintf("symbol %s used at sorts %s and %s", t.Name, s, t.Sort))
		}
		d.consts[t.Name] = t.Sort
		return
	case "uf":
		sig := make([]string, 0, len(t.Args)+1)
		for _, a := range t.Args {
			sig = append(sig, a.Sort)
		}
		sig = append(sig, t.Sort)
		if old, ok := d.funs[t.Name]; ok {
			if strings.Join(old, " ") != strings.Join(sig, " ") {
				panic(fmt.Sprintf("uf %s used at signatures %v and %v", t.Name, old, sig))
			}
		}
		d.funs[t.Name] = sig
	case "forall", "exists":
		for _, b := range t.Bound {
			d.bound[b.Name]++
		}
		d.walk(t.Args[0])
		for _, b := range t.Bound {
			d.bound[b.Name]--
		}
		return
	}
	for _, a := range t.Args {
		d.walk(a)
	}
}

// Datatype declarations used by spec-level records.
type Datatype struct {
	Name   string
	Fields []DTField
}
type DTField struct{ Name, Sort string }

func (dt *Datatype) Decl() string {
	var b strings.Builder
	fmt.Fprintf(&b, "(declare-datatypes ((%s 0)) (((mk_%s", dt.Name, dt.Name)
	for _, f := range dt.Fields {
		fmt.Fprintf(&b, " (%s_%s %s)", dt.Name, f.Name, f.Sort)
	}
	b.WriteString("))))")
	return b.String()
}

// Query renders a satisfiability query: assumptions ∧ ¬goal.
func Query(dts []*Datatype, assumptions []*Term, negGoal *Term, getValues []*Term) string {
	d := &declSet{consts: map[string]string{}, funs: map[string][]string{}, bound: map[string]int{}}
	for _, a := range assumptions {
		d.walk(a)
	}
	d.walk(negGoal)
	for _, v := range getValues {
		d.walk(v)
	}
	var b strings.Builder
	b.WriteString("(set-option :produce-models true)\n(set-logic ALL)\n")
	names := make([]string, 0, len(d.consts))
	for n := range d.consts {
		names = append(names, n)
	}
	sort.Strings(names)
	for _, n := range names {
		fmt.Fprintf(&b, "(declare-const %s %s)\n", quoteSym(n), d.consts[n])
	}
	names = names[:0]
	for n := range d.funs {
		names = append(names, n)
	}
	sort.Strings(names)
	for _, n := range names {
		sig := d.funs[n]
		fmt.Fprintf(&b, "(declare-fun %s (%s) %s)\n", quoteSym(n), strings.Join(sig[:len(sig)-1], " "), sig[len(sig)-1])
	}
	for _, a := range assumptions {
		fmt.Fprintf(&b, "(assert %s)\n", a.String())
	}
	fmt.Fprintf(&b, "(assert %s)\n", negGoal.String())
	b.WriteString("(check-sat)\n")
	if len(getValues) > 0 {
		b.WriteString("(get-value (")
		for i, v := range getValues {
			if i > 0 {
				b.WriteString(" ")
			}
			b.WriteString(v.String())
		}
		b.WriteString("))\n")
	}
	return b.String()
}

// BatchQuery renders one solver session: shared assumptions, then one push/assert/check/pop
// block per goal (extra[i] are goal-specific assumptions, e.g. quantifier instances).
func BatchQuery(common []*Term, extra [][]*Term, negGoals []*Term, timeoutMs int) string {
	d := &declSet{consts: map[string]string{}, funs: map[string][]string{}, bound: map[string]int{}}
	for _, a := range common {
		d.walk(a)
	}
	for i, g := range negGoals {
		d.walk(g)
		for _, x := range extra[i] {
			d.walk(x)
		}
	}
	var b strings.Builder
	fmt.Fprintf(&b, "(set-option :timeout %d)\n(set-logic ALL)\n", timeoutMs)
	names := make([]string, 0, len(d.consts))
	for n := range d.consts {
		names = append(names, n)
	}
	sort.Strings(names)
	for _, n := range names {
		fmt.Fprintf(&b, "(declare-const %s %s)\n", quoteSym(n), d.consts[n])
	}
	names = names[:0]
	for n := range d.funs {
		names = append(names, n)
	}
	sort.Strings(names)
	for _, n := range names {
		sig := d.funs[n]
		fmt.Fprintf(&b, "(declare-fun %s (%s) %s)\n", quoteSym(n), strings.Join(sig[:len(sig)-1], " "), sig[len(sig)-1])
	}
	for _, a := range common {
		fmt.Fprintf(&b, "(assert %s)\n", a.String())
	}
	for i, g := range negGoals {
		b.WriteString("(push 1)\n")
		for _, x := range extra[i] {
			fmt.Fprintf(&b, "(assert %s)\n", x.String())
		}
		fmt.Fprintf(&b, "(assert %s)\n(check-sat)\n(pop 1)\n", g.String())
	}
	return b.String()
}
