package main

import (
	"encoding/json"
	"fmt"
	"go/token"
	"go/types"
	"os"
	"path/filepath"
	"sort"
	"strings"

	"golang.org/x/tools/go/ssa"
)

// Baseline of the local variables (and loops, see loops.go) of the functions under contract, taken
// on the tree the contracts were written against (`gocv bindings`, committed as /verif/bindings.json).
// Contracts live in a separate file and have to name locals in loop invariants and `at call`
// clauses; when such a name no longer resolves, the baseline says what the variable was (its type
// and which of the variables of that type it was), so that a mere rename can be followed instead
// of reported. A wrong guess cannot make anything pass that should not: locals occur only in
// intermediate assertions (invariants), which are proved like any other; the postconditions
// speak about parameters, results and the heap.

type baseLocal struct {
	Name string `json:"name"`
	Type string `json:"type"`
	Ord  int    `json:"ord"` // rank among the function's variables of this type, by position
}

type baseLoop struct {
	Ord   int      `json:"ord"`
	Kind  string   `json:"kind"`  // range-slice, range-chan, range-map, for
	Calls []string `json:"calls"` // callee names in the body, sorted, deduplicated
}

type baseFn struct {
	Locals   []baseLocal    `json:"locals"`
	Loops    []baseLoop     `json:"loops"`
	Sites    map[string]int `json:"sites,omitempty"`    // how many sites of each kind (Return, calls per callee name) the function has
	Counters []string       `json:"counters,omitempty"` // variables that are incremented by one somewhere (loop counters)
	Sig      string         `json:"sig,omitempty"`      // parameter and result types (names aside)
}

// functionsKey lists (as "locals" names) every function, method and closure of the loaded packages
// that existed when the baseline was taken.
const functionsKey = "$functions"

// sigOf: the parameter and result types of a function, without names and without the receiver.
func sigOf(fn *ssa.Function) string {
	if o := fn.Origin(); o != nil {
		fn = o
	}
	sig := fn.Signature
	var b strings.Builder
	b.WriteString("(")
	for i := 0; i < sig.Params().Len(); i++ {
		if i > 0 {
			b.WriteString(", ")
		}
		b.WriteString(types.TypeString(sig.Params().At(i).Type(), nil))
	}
	if sig.Variadic() {
		b.WriteString("...")
	}
	b.WriteString(") (")
	for i := 0; i < sig.Results().Len(); i++ {
		if i > 0 {
			b.WriteString(", ")
		}
		b.WriteString(types.TypeString(sig.Results().At(i).Type(), nil))
	}
	b.WriteString(")")
	return b.String()
}

func pkgOfKey(k string) string {
	// "path/to/pkg.Type.method$1" -> "path/to/pkg"
	slash := strings.LastIndex(k, "/")
	dot := strings.Index(k[slash+1:], ".")
	if dot < 0 {
		return k
	}
	return k[:slash+1+dot]
}

// funcValuesIn: the functions fn mentions as values (not as the callee of a static call), closures
// excluded.
func funcValuesIn(fn *ssa.Function) []*ssa.Function {
	var out []*ssa.Function
	seen := map[*ssa.Function]bool{}
	for _, b := range fn.Blocks {
		for _, ins := range b.Instrs {
			var callee ssa.Value
			if c, ok := ins.(ssa.CallInstruction); ok && !c.Common().IsInvoke() {
				callee = c.Common().Value
			}
			for _, op := range ins.Operands(nil) {
				if op == nil || *op == nil {
					continue
				}
				v := *op
				for {
					if cv, ok := v.(*ssa.ChangeType); ok {
						v = cv.X
						continue
					}
					break
				}
				f, ok := v.(*ssa.Function)
				if !ok || *op == callee || f.Parent() != nil || seen[f] {
					continue
				}
				seen[f] = true
				out = append(out, f)
			}
		}
	}
	return out
}

func parentOfKey(k string) string {
	if i := strings.Index(k, "$"); i >= 0 {
		return k[:i]
	}
	return ""
}

// rebindFunctions: a contract is keyed by package, receiver type and function name (closures: the
// enclosing function and an ordinal). When the function under that key is gone or has another
// signature than it had when the contract was written, and exactly one function of the same package
// with that signature is either new (not in the baseline) or - for a closure - another closure of
// the same enclosing function, the contract follows it: the function is known under the old key
// from then on (calls of it find the contract, obligations keep their names).
func (e *Engine) rebindFunctions() []string {
	if e.bindBase == nil {
		return nil
	}
	known := map[string]bool{}
	if fs := e.bindBase[functionsKey]; fs != nil {
		for _, l := range fs.Locals {
			known[l.Name] = true
		}
	}
	taken := map[*ssa.Function]bool{}
	var todo []string
	for _, k := range e.db.SortedKeys() {
		base := e.bindBase[k]
		if base == nil || base.Sig == "" {
			continue
		}
		fn := e.fnByKey[k]
		if fn != nil && fn.Blocks != nil && sigOf(fn) == base.Sig {
			taken[fn] = true
			continue
		}
		if pk := pkgOfKey(k); e.allPkgs[pk] == nil {
			continue // a package this run did not load
		}
		todo = append(todo, k)
	}
	var notes []string
	all := map[string]*ssa.Function{}
	for k, f := range e.fnByKey {
		all[k] = f
	}
	for _, k := range todo {
		base := e.bindBase[k]
		var cands []*ssa.Function
		var candKeys []string
		for fk, f := range all {
			if f.Blocks == nil || taken[f] || pkgOfKey(fk) != pkgOfKey(k) || sigOf(f) != base.Sig {
				continue
			}
			sameParent := parentOfKey(k) != "" && parentOfKey(fk) == parentOfKey(k)
			if !known[fk] || sameParent {
				cands = append(cands, f)
				candKeys = append(candKeys, fk)
			}
		}
		if len(cands) == 0 && parentOfKey(k) != "" {
			// a closure that is gone: a function value of its signature that the enclosing function
			// now mentions instead (a named function, a method expression) stands in its place
			if par := e.fnByKey[parentOfKey(k)]; par != nil && par.Blocks != nil {
				for _, f := range funcValuesIn(par) {
					if f.Blocks == nil || taken[f] || sigOf(f) != base.Sig {
						continue
					}
					if fk := e.fnKey(f); e.db.Contracts[fk] != nil || known[fk] && f.Synthetic == "" {
						continue // has its own contract, or was there all along under its own name
					}
					cands = append(cands, f)
					candKeys = append(candKeys, f.String())
				}
			}
		}
		if len(cands) != 1 {
			continue
		}
		f := cands[0]
		taken[f] = true
		if e.keyAlias == nil {
			e.keyAlias = map[*ssa.Function]string{}
		}
		e.keyAlias[f] = k
		e.fnByKey[k] = f
		if e.fnByKey[candKeys[0]] == f && candKeys[0] != k {
			delete(e.fnByKey, candKeys[0])
		}
		notes = append(notes, fmt.Sprintf("the function the contract %s was written for is gone or has another signature; %s has that signature and is taken for it", k, candKeys[0]))
	}
	return notes
}

// siteCounts: the number of instructions per site kind, as obligation names count them (`Return#k`,
// `Callee#k`).
func siteCounts(fn *ssa.Function) map[string]int {
	m := map[string]int{}
	for _, b := range fn.Blocks {
		for _, i := range b.Instrs {
			switch c := i.(type) {
			case *ssa.Return:
				m["Return"]++
			case ssa.CallInstruction:
				m[calleeName(c.Common())]++
			}
		}
	}
	return m
}

// siteShifted: does fn have another number of sites of this kind than when the baseline was taken
// (so that ordinals of that kind may have moved)?
func siteShifted(bb bindingBase, fnKey string, fn *ssa.Function, kind string) bool {
	if bb == nil || fn == nil {
		return false
	}
	base := bb[fnKey]
	if base == nil || base.Sites == nil {
		return false
	}
	return siteCounts(fn)[kind] != base.Sites[kind]
}

type bindingBase map[string]*baseFn

// helpersKey lists (as "locals" names) the functions with loops and without a contract that existed
// in the loaded packages when the baseline was taken.
const helpersKey = "$helpers-with-loops"

func bindingsPath() string { return filepath.Join(verifRoot(), "bindings.json") }

func loadBindingBase() bindingBase {
	b, err := os.ReadFile(bindingsPath())
	if err != nil {
		return nil
	}
	var m bindingBase
	if json.Unmarshal(b, &m) != nil {
		return nil
	}
	return m
}

// localsOf lists the named variables of a function (naive-form SSA: every variable is an Alloc
// whose comment is its name; compiler temporaries have comments too and are listed like variables).
func localsOf(fn *ssa.Function) []baseLocal {
	if o := fn.Origin(); o != nil {
		fn = o
	}
	var as []*ssa.Alloc
	for _, b := range fn.Blocks {
		for _, ins := range b.Instrs {
			if a, ok := ins.(*ssa.Alloc); ok && a.Comment != "" {
				as = append(as, a)
			}
		}
	}
	sort.SliceStable(as, func(i, j int) bool { return as[i].Pos() < as[j].Pos() })
	cnt := map[string]int{}
	var out []baseLocal
	for _, a := range as {
		t := types.TypeString(a.Type().(*types.Pointer).Elem(), nil)
		out = append(out, baseLocal{Name: a.Comment, Type: t, Ord: cnt[t]})
		cnt[t]++
	}
	return out
}

// rebindLocal: name does not resolve in fn any more; which variable took its place?
func (e *Engine) rebindLocal(fn *ssa.Function, name string) string {
	if e.bindBase == nil || name == "rangeindex" {
		return "" // the hidden index of a range loop is not a renamed variable (see newCounter)
	}
	base := e.bindBase[e.fnKey(fn)]
	if base == nil {
		return ""
	}
	var was *baseLocal
	known := map[string]bool{}
	for i := range base.Locals {
		known[base.Locals[i].Name] = true
		if base.Locals[i].Name == name && was == nil {
			was = &base.Locals[i]
		}
	}
	if was == nil {
		return ""
	}
	cur := localsOf(fn)
	for _, c := range cur {
		if c.Name == name {
			return "" // still there (just not live at this point)
		}
	}
	var cands []baseLocal
	seen := map[string]bool{}
	for _, c := range cur {
		if c.Type == was.Type && !known[c.Name] && !seen[c.Name] && c.Name != "rangeindex" {
			seen[c.Name] = true
			cands = append(cands, c)
		}
	}
	switch {
	case len(cands) == 1:
		return cands[0].Name
	case len(cands) > 1:
		for _, c := range cands {
			if c.Ord == was.Ord {
				return c.Name
			}
		}
	}
	return ""
}

func cmdBindings(args []string) {
	cfg, err := loadProps()
	if err != nil {
		fmt.Fprintln(os.Stderr, err)
		os.Exit(2)
	}
	out := bindingBase{}
	done := map[string]bool{}
	for _, pc := range cfg {
		for _, pm := range pc.Modules {
			key := pm.Dir + "|" + strings.Join(pm.Pkgs, ",")
			if done[key] {
				continue
			}
			done[key] = true
			e := NewEngine()
			if err := e.Load(filepath.Join(repoRoot(), pm.Dir), nil, pm.Pkgs...); err != nil {
				fmt.Fprintln(os.Stderr, "load:", err)
				os.Exit(2)
			}
			os.Setenv("GOCV_NO_REBIND", "1")
			if err := loadSpecs(e, e.moduleDir); err != nil {
				fmt.Fprintln(os.Stderr, "contracts:", err)
				os.Exit(2)
			}
			hs := out[helpersKey]
			if hs == nil {
				hs = &baseFn{}
				out[helpersKey] = hs
			}
			for k, fn := range e.fnByKey {
				if fn.Blocks == nil || e.db.Contracts[k] != nil || !e.inModule(fn) || len(e.loopsOf(fn)) == 0 {
					continue
				}
				dup := false
				for _, l := range hs.Locals {
					if l.Name == k {
						dup = true
					}
				}
				if !dup {
					hs.Locals = append(hs.Locals, baseLocal{Name: k})
				}
			}
			sort.Slice(hs.Locals, func(i, j int) bool { return hs.Locals[i].Name < hs.Locals[j].Name })
			fs := out[functionsKey]
			if fs == nil {
				fs = &baseFn{}
				out[functionsKey] = fs
			}
			have := map[string]bool{}
			for _, l := range fs.Locals {
				have[l.Name] = true
			}
			for k, fn := range e.fnByKey {
				if fn.Blocks != nil && e.inModule(fn) && !have[k] {
					fs.Locals = append(fs.Locals, baseLocal{Name: k})
				}
			}
			sort.Slice(fs.Locals, func(i, j int) bool { return fs.Locals[i].Name < fs.Locals[j].Name })
			for _, k := range e.db.SortedKeys() {
				fn := e.fnByKey[k]
				if fn == nil || fn.Blocks == nil || out[k] != nil {
					continue
				}
				bf := &baseFn{Locals: localsOf(fn), Sites: siteCounts(fn), Sig: sigOf(fn)}
				for c := range counters(fn) {
					bf.Counters = append(bf.Counters, c)
				}
				sort.Strings(bf.Counters)
				for _, li := range e.loopsOf(fn) {
					bf.Loops = append(bf.Loops, e.loopSignature(fn, li))
				}
				out[k] = bf
			}
		}
	}
	b, _ := json.MarshalIndent(out, "", " ")
	if err := os.WriteFile(bindingsPath(), append(b, '\n'), 0o644); err != nil {
		fmt.Fprintln(os.Stderr, err)
		os.Exit(2)
	}
	fmt.Printf("bindings: %d functions written to %s\n", len(out), bindingsPath())
}

// loopSignature: what a loop looks like independently of names and of its position.
func (e *Engine) loopSignature(fn *ssa.Function, li *LoopInfo) baseLoop {
	sig := baseLoop{Ord: li.Ord, Kind: "for"}
	calls := map[string]bool{}
	for b := range li.Body {
		for _, ins := range b.Instrs {
			switch i := ins.(type) {
			case *ssa.Call:
				if _, isB := i.Call.Value.(*ssa.Builtin); !isB {
					if n := calleeName(&i.Call); !chattyCallee[n] {
						calls[n] = true
					}
				}
			case *ssa.Next:
				sig.Kind = "range-map"
			case *ssa.UnOp:
				if i.CommaOk && b == li.Header {
					sig.Kind = "range-chan"
				}
			}
		}
	}
	if sig.Kind == "for" {
		for _, c := range li.Cells {
			if c.Comment == "rangeindex" {
				sig.Kind = "range-slice"
			}
		}
	}
	for c := range calls {
		sig.Calls = append(sig.Calls, c)
	}
	sort.Strings(sig.Calls)
	return sig
}

// helperIsNew: fn (explored inline, no contract) is not among the loop-carrying helpers of the baseline.
func (e *Engine) helperIsNew(fn *ssa.Function) bool {
	if e.bindBase == nil {
		return false
	}
	hs := e.bindBase[helpersKey]
	if hs == nil {
		return false
	}
	k := e.fnKey(fn)
	for _, l := range hs.Locals {
		if l.Name == k {
			return false
		}
	}
	return true
}

// contractLoopOrd maps a loop of the current code to the ordinal the contract knows it by. As long
// as the function has as many loops as it had when the contracts were written, that is its own
// ordinal; otherwise (a loop was added, removed or moved into a helper) the loops are aligned with
// the baseline by what they look like (kind and the calls in the body), keeping their order.
// 0: the contract does not know this loop.
func (e *Engine) contractLoopOrd(f *Frame, li *LoopInfo) int {
	if f.contract == nil || e.bindBase == nil {
		return li.Ord
	}
	base := e.bindBase[e.fnKey(f.fn)]
	if base == nil {
		return li.Ord
	}
	cur := e.loopsOf(f.fn)
	if len(cur) == len(base.Loops) {
		return li.Ord
	}
	if e.loopMap == nil {
		e.loopMap = map[*ssa.Function]map[int]int{}
	}
	m := e.loopMap[f.fn]
	if m == nil {
		m = alignLoops(e, f.fn, cur, base.Loops)
		e.loopMap[f.fn] = m
	}
	return m[li.Ord]
}

const minLoopSimilarity = 0.5

// calls that come and go with routine edits and say nothing about what a loop does
var chattyCallee = map[string]bool{"Debug": true, "Info": true, "Warn": true, "Error": true, "Printf": true, "Println": true,
	"Sprintf": true, "Errorf": true, "Sprint": true, "Add": true, "Inc": true, "Set": true, "Observe": true, "String": true, "Error$": true}

// loopSimilarity: mostly the calls the bodies make (loggers and the like aside), a little the kind -
// a range loop rewritten as an index loop is still the same loop.
func loopSimilarity(a, b baseLoop) float64 {
	s := 0.0
	if a.Kind == b.Kind {
		s += 0.25
	}
	in := map[string]bool{}
	for _, c := range a.Calls {
		in[c] = true
	}
	inter, union := 0, len(in)
	for _, c := range b.Calls {
		if in[c] {
			inter++
		} else {
			union++
		}
	}
	if union == 0 {
		s += 1
	} else {
		s += float64(inter) / float64(union)
	}
	return s
}

// alignLoops: order-preserving alignment of the current loops with the baseline loops that
// maximises the total similarity (a pair must at least be of the same kind or share a call).
func alignLoops(e *Engine, fn *ssa.Function, cur []*LoopInfo, base []baseLoop) map[int]int {
	n, m := len(cur), len(base)
	sig := make([]baseLoop, n)
	for i, li := range cur {
		sig[i] = e.loopSignature(fn, li)
	}
	score := make([][]float64, n+1)
	for i := range score {
		score[i] = make([]float64, m+1)
	}
	for i := n - 1; i >= 0; i-- {
		for j := m - 1; j >= 0; j-- {
			best := score[i+1][j]
			if score[i][j+1] > best {
				best = score[i][j+1]
			}
			if sim := loopSimilarity(sig[i], base[j]); sim >= minLoopSimilarity {
				if v := score[i+1][j+1] + sim; v > best {
					best = v
				}
			}
			score[i][j] = best
		}
	}
	out := map[int]int{}
	i, j := 0, 0
	for i < n && j < m {
		sim := loopSimilarity(sig[i], base[j])
		switch {
		case sim >= minLoopSimilarity && score[i][j] == score[i+1][j+1]+sim:
			out[cur[i].Ord] = base[j].Ord
			i++
			j++
		case score[i][j] == score[i+1][j]:
			i++
		default:
			j++
		}
	}
	return out
}

// counters: the int variables of fn that some statement increments by one (loop counters).
func counters(fn *ssa.Function) map[string]bool {
	if o := fn.Origin(); o != nil {
		fn = o
	}
	out := map[string]bool{}
	for _, b := range fn.Blocks {
		for _, ins := range b.Instrs {
			st, ok := ins.(*ssa.Store)
			if !ok {
				continue
			}
			a, ok := st.Addr.(*ssa.Alloc)
			if !ok || a.Comment == "" || a.Comment == "rangeindex" {
				continue
			}
			bo, ok := st.Val.(*ssa.BinOp)
			if !ok || bo.Op != token.ADD {
				continue
			}
			ld, ok := bo.X.(*ssa.UnOp)
			if !ok || ld.X != ssa.Value(a) {
				continue
			}
			if c, ok := bo.Y.(*ssa.Const); ok && c.Value != nil && c.Value.ExactString() == "1" {
				out[a.Comment] = true
			}
		}
	}
	return out
}

// newCounter: the one loop counter of fn that the baseline does not know (a range loop became an index loop).
func (e *Engine) newCounter(fn *ssa.Function) string {
	if e.bindBase == nil {
		return ""
	}
	base := e.bindBase[e.fnKey(fn)]
	if base == nil {
		return ""
	}
	known := map[string]bool{}
	for _, c := range base.Counters {
		known[c] = true
	}
	found := ""
	for c := range counters(fn) {
		if !known[c] {
			if found != "" {
				return ""
			}
			found = c
		}
	}
	return found
}

// wasCounter: name was a loop counter of fn in the baseline and is gone now, while fn has more
// range loops than it had (an index loop became a range loop).
func (e *Engine) wasCounter(fn *ssa.Function, name string) bool {
	if e.bindBase == nil {
		return false
	}
	base := e.bindBase[e.fnKey(fn)]
	if base == nil {
		return false
	}
	isCounter := false
	for _, c := range base.Counters {
		if c == name {
			isCounter = true
		}
	}
	if !isCounter {
		return false
	}
	nowRI, wasRI := 0, 0
	for _, l := range localsOf(fn) {
		if l.Name == name {
			return false
		}
		if l.Name == "rangeindex" {
			nowRI++
		}
	}
	for _, l := range base.Locals {
		if l.Name == "rangeindex" {
			wasRI++
		}
	}
	return nowRI > wasRI
}
