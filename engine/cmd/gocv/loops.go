package main

// Natural loops, static site ordinals, and the loop-head rule (establish / havoc / assume /
// preserve) with a dynamically inferred modification set.

import (
	"fmt"
	"go/token"
	"go/types"
	"reflect"
	"sort"
	"strings"

	"golang.org/x/tools/go/ssa"
)

type LoopInfo struct {
	Header *ssa.BasicBlock
	Body   map[*ssa.BasicBlock]bool
	Ord    int
	Cells  []*ssa.Alloc
	Pos    token.Pos
}

func (e *Engine) loopsOf(fn *ssa.Function) []*LoopInfo {
	if l, ok := e.loopCache[fn]; ok {
		return l
	}
	byHeader := map[*ssa.BasicBlock]*LoopInfo{}
	for _, b := range fn.Blocks {
		for _, s := range b.Succs {
			if s.Dominates(b) { // back edge b -> s
				li := byHeader[s]
				if li == nil {
					li = &LoopInfo{Header: s, Body: map[*ssa.BasicBlock]bool{s: true}}
					byHeader[s] = li
				}
				// reverse reachability from b up to s
				stack := []*ssa.BasicBlock{b}
				for len(stack) > 0 {
					n := stack[len(stack)-1]
					stack = stack[:len(stack)-1]
					if li.Body[n] {
						continue
					}
					li.Body[n] = true
					stack = append(stack, n.Preds...)
				}
			}
		}
	}
	var out []*LoopInfo
	for _, li := range byHeader {
		li.Pos = token.NoPos
		for b := range li.Body {
			for _, ins := range b.Instrs {
				if p := ins.Pos(); p.IsValid() && (!li.Pos.IsValid() || p < li.Pos) {
					li.Pos = p
				}
			}
		}
		seen := map[*ssa.Alloc]bool{}
		for b := range li.Body {
			for _, ins := range b.Instrs {
				if s, ok := ins.(*ssa.Store); ok {
					if a := rootAlloc(s.Addr); a != nil && !a.Heap && !seen[a] {
						seen[a] = true
						li.Cells = append(li.Cells, a)
					}
				}
			}
		}
		out = append(out, li)
	}
	sort.Slice(out, func(i, j int) bool {
		if out[i].Pos != out[j].Pos {
			return out[i].Pos < out[j].Pos
		}
		return out[i].Header.Index < out[j].Header.Index
	})
	for i, li := range out {
		li.Ord = i + 1
	}
	e.loopCache[fn] = out
	return out
}

func rootAlloc(v ssa.Value) *ssa.Alloc {
	for {
		switch a := v.(type) {
		case *ssa.Alloc:
			return a
		case *ssa.FieldAddr:
			v = a.X
		case *ssa.IndexAddr:
			v = a.X
		default:
			return nil
		}
	}
}

func (e *Engine) loopAt(fn *ssa.Function, b *ssa.BasicBlock) *LoopInfo {
	for _, li := range e.loopsOf(fn) {
		if li.Header == b {
			return li
		}
	}
	return nil
}

// ---- static site names --------------------------------------------------------------

type siteTable struct {
	name map[ssa.Instruction]string
}

func calleeName(c *ssa.CallCommon) string {
	if c.IsInvoke() {
		return c.Method.Name()
	}
	switch v := c.Value.(type) {
	case *ssa.Function:
		n := v.Name()
		if o := v.Origin(); o != nil {
			n = o.Name()
		}
		return n
	case *ssa.Builtin:
		return v.Name()
	case *ssa.MakeClosure:
		return v.Fn.Name()
	}
	return valueName(c.Value)
}

func valueName(v ssa.Value) string {
	switch a := v.(type) {
	case *ssa.Alloc:
		return a.Comment
	case *ssa.Parameter:
		return a.Name()
	case *ssa.FieldAddr:
		return structFieldName(a)
	case *ssa.UnOp:
		return valueName(a.X)
	case *ssa.FreeVar:
		return a.Name()
	}
	return "fn"
}

func structFieldName(fa *ssa.FieldAddr) string {
	pt, ok := fa.X.Type().Underlying().(*types.Pointer)
	if !ok {
		return "field"
	}
	st, ok := pt.Elem().Underlying().(*types.Struct)
	if !ok {
		return "field"
	}
	return st.Field(fa.Field).Name()
}

func allocElem(a *ssa.Alloc) types.Type { return a.Type().(*types.Pointer).Elem() }

// siteOf gives a stable name to an instruction: Kind#k where k ranks the instruction by
// source position among instructions of the same SSA kind (calls: by callee name).
func (e *Engine) siteOf(f *Frame, ins ssa.Instruction) string {
	fn := f.fn
	if e.siteCache == nil {
		e.siteCache = map[*ssa.Function]*siteTable{}
	}
	tab := e.siteCache[fn]
	if tab == nil {
		tab = &siteTable{name: map[ssa.Instruction]string{}}
		type item struct {
			ins  ssa.Instruction
			kind string
			pos  token.Pos
			seq  int
		}
		var items []item
		seq := 0
		for _, b := range fn.Blocks {
			for _, i := range b.Instrs {
				seq++
				kind := reflect.TypeOf(i).Elem().Name()
				if ci, ok := i.(ssa.CallInstruction); ok {
					kind = calleeName(ci.Common())
				}
				items = append(items, item{i, kind, i.Pos(), seq})
			}
		}
		sort.SliceStable(items, func(a, b int) bool {
			if items[a].pos != items[b].pos {
				return items[a].pos < items[b].pos
			}
			return items[a].seq < items[b].seq
		})
		cnt := map[string]int{}
		for _, it := range items {
			cnt[it.kind]++
			tab.name[it.ins] = fmt.Sprintf("%s#%d", it.kind, cnt[it.kind])
		}
		e.siteCache[fn] = tab
	}
	n := tab.name[ins]
	if f.name != "" {
		return f.name + "/" + n
	}
	return n
}

// ---- loop head ----------------------------------------------------------------------

func (x *Explorer) loopInvs(f *Frame, li *LoopInfo) []*Clause {
	if f.contract == nil {
		if f.borrowed != nil {
			return f.borrowed[li.Header]
		}
		return nil
	}
	return f.contract.LoopInv[x.eng.contractLoopOrd(f, li)]
}

const unrollBound = 2

// simpleLoop: cheap enough to unroll - no loop nested in it (directly or in a helper it calls) and
// few branches in its body.
func (x *Explorer) simpleLoop(fn *ssa.Function, li *LoopInfo) bool {
	ifs := 0
	for b := range li.Body {
		if b != li.Header {
			if inner := x.eng.loopAt(fn, b); inner != nil {
				return false
			}
		}
		for _, ins := range b.Instrs {
			switch i := ins.(type) {
			case *ssa.If:
				ifs++
			case *ssa.Select:
				return false
			case ssa.CallInstruction:
				if callee := i.Common().StaticCallee(); callee != nil && callee.Blocks != nil && x.eng.inModule(callee) &&
					x.eng.db.Contracts[x.eng.fnKey(callee)] == nil && len(x.eng.loopsOf(callee)) > 0 {
					return false
				}
			}
		}
	}
	return ifs <= 6
}

// borrowedInvs: invariants of the function under contract for a loop that it no longer has
// itself, if they all bind in the scope of the helper frame f (whose loop li is being entered).
func (x *Explorer) borrowedInvs(st *State, f *Frame, li *LoopInfo) []*Clause {
	top := st.frames[0]
	if top.contract == nil || x.eng.bindBase == nil {
		return nil
	}
	if f.borrowed != nil {
		if b, ok := f.borrowed[li.Header]; ok {
			return b
		}
	}
	remember := func(b []*Clause) []*Clause {
		nb := make(map[*ssa.BasicBlock][]*Clause, len(f.borrowed)+1)
		for k, v := range f.borrowed {
			nb[k] = v
		}
		nb[li.Header] = b
		f.borrowed = nb
		return b
	}
	base := x.eng.bindBase[x.eng.fnKey(top.fn)]
	if base == nil {
		return remember(nil)
	}
	// contract loops without a partner among the function's current loops
	matched := map[int]bool{}
	for _, cl := range x.eng.loopsOf(top.fn) {
		matched[x.eng.contractLoopOrd(top, cl)] = true
	}
	sig := x.eng.loopSignature(f.fn, li)
	best, bestSim := 0, 0.0
	for _, bl := range base.Loops {
		if matched[bl.Ord] || len(top.contract.LoopInv[bl.Ord]) == 0 {
			continue
		}
		if sim := loopSimilarity(sig, bl); sim > bestSim {
			best, bestSim = bl.Ord, sim
		}
	}
	if best == 0 || bestSim < minLoopSimilarity {
		return remember(nil)
	}
	invs := top.contract.LoopInv[best]
	env := x.specEnv(st, f, top.contract)
	env.viewBases, env.viewHead = map[string]bool{}, st.ghosts
	for _, cl := range invs {
		env.goal = true
		if g, _ := env.tryBool(cl.Expr); g == nil {
			return remember(nil)
		}
	}
	if !st.dry {
		st.note(fmt.Sprintf("loop %d of %s is now loop %d of the helper %s: its invariants are read in the helper's scope", best, x.eng.fnKey(top.fn), li.Ord, x.eng.fnKey(f.fn)))
	}
	return remember(invs)
}

func (x *Explorer) atLoopHead(st *State, f *Frame, li *LoopInfo) {
	if st.dead {
		return
	}
	invs := x.loopInvs(f, li)
	if f.contract == nil && len(invs) == 0 && x.eng.helperIsNew(f.fn) {
		// A loop in a helper that did not exist when the contracts were written - typically a
		// loop that was extracted from the function under contract. A simple loop is unrolled a
		// fixed number of times and the result for the function is labelled bounded. For a loop
		// that is too expensive to unroll, the invariants the contract has for a loop that the
		// function itself no longer has are read in the helper's scope (an extracted loop usually
		// keeps its variable names) and used if every one of them binds there. Otherwise the loop
		// is treated like any other loop without invariants.
		if !x.simpleLoop(f.fn, li) {
			if b := x.borrowedInvs(st, f, li); b != nil {
				invs = b
			}
		} else {
			if f.unroll == nil {
				f.unroll = map[*ssa.BasicBlock]int{}
			} else {
				nu := make(map[*ssa.BasicBlock]int, len(f.unroll))
				for k, v := range f.unroll {
					nu[k] = v
				}
				f.unroll = nu
			}
			f.unroll[li.Header]++
			if !st.dry {
				x.bounded[fmt.Sprintf("loop %d of %s (a helper the contracts do not know, explored inline) is unrolled %d times: obligations of the function under contract are decided for inputs that make it run at most %d times", li.Ord, x.eng.fnKey(f.fn), unrollBound, unrollBound)]++
			}
			if f.unroll[li.Header] > unrollBound+1 {
				st.dead = true
			}
			return
		}
	}
	site := fmt.Sprintf("loop#%d", x.eng.contractLoopOrd(f, li))
	if f.name != "" {
		site = f.name + "/" + site
	}
	// the implicit frame invariant is relative to the function under contract, also for a loop in
	// a helper that is explored inline
	topF := st.frames[0]
	framed := topF.contract != nil
	frameOf := func(name string, cur *Term, mods []Loc, r *Term) *Term {
		old := st.oldHeap[name]
		if old == nil {
			old = Sym("H0:"+name, cur.Sort)
		}
		return Implies(st.unchargedGuard(name, r), frameFormula(name, cur, old, mods, r))
	}
	if al := f.loops[li.Header]; al != nil {
		// arrival over a back edge: preservation, then the path ends
		if st.dry && al.ghostW != nil {
			for k, v := range st.ghosts {
				if !sameVal(v, al.headGhosts[k]) {
					al.ghostW[ghostBase(k)] = true
					al.ghostSample[k] = v
				}
			}
		}
		for name, sym := range al.havocSym {
			if cur := st.heap[name]; cur != nil && !freshAbove(cur, sym, al.entryK) {
				if st.dry {
					al.broken[name] = true
				} else if al.kept[name] != nil {
					// cannot happen when the dry runs covered this path; proved rather than assumed
					r := st.freshInt("frame_r")
					st.skolems = append(st.skolems, r)
					x.emit(st, "inv-preserve", "entry-frame:"+name, site, Implies(Le(r, IntLit(al.entryK)), Eq(Select(cur, r), Select(sym, r))), "(implicit loop frame)")
					st.skolems = st.skolems[:len(st.skolems)-1]
				}
			}
		}
		if !st.dry {
			env := x.specEnv(st, f, conOr(f, st))
			env.iterHeap, env.iterCells = al.iterHeap, al.iterCells
			for _, cl := range invs {
				env.viewBases, env.viewHead = al.ghostW, al.headGhosts
				if cl.Overall {
					env.viewBases, env.viewHead = nil, nil
				}
				if g, ok := x.goalOf(st, env, cl, "inv-preserve", site); ok {
					x.emit(st, "inv-preserve", cl.Label, site, g, cl.Where)
				}
			}
			if framed {
				mods := x.contractMods(st, topF)
				for _, name := range sortedKeys(al.written) {
					cur := st.heap[name]
					if cur == nil || strings.HasPrefix(name, "map:") || st.unframed[name] {
						continue
					}
					r := st.freshInt("frame_r")
					st.skolems = append(st.skolems, r)
					x.emit(st, "inv-preserve", "frame:"+name, site, frameOf(name, cur, mods, r), "(implicit loop frame)")
					st.skolems = st.skolems[:len(st.skolems)-1]
				}
			}
			env.viewBases, env.viewHead = nil, nil
			if f.contract != nil {
				if dec := f.contract.LoopDec[x.eng.contractLoopOrd(f, li)]; dec != nil && al.dec0 != nil {
					env.goal = true
					d := env.evalInt(dec.Expr)
					x.emit(st, "decreases", "variant", site, And(Ge(al.dec0, IntLit(0)), Lt(d, al.dec0)), dec.Where)
				}
			}
		}
		st.dead = true
		return
	}
	// first arrival: infer the set of heap arrays written by the body (fixpoint over dry runs)
	W := map[string]string{}
	seen := map[string]bool{}
	broken := map[string]bool{}
	ghostW := map[string]bool{}
	ghostSample := map[string]Val{}
	entryK := int64(refBase + x.nextRef)
	depth := len(st.frames)
	for iter := 0; iter < 4; iter++ {
		nGhostW := len(ghostW)
		dry := st.clone()
		dry.dry = true
		dry.dryLoop = li
		dry.dryDepth = depth
		dry.written = map[string]bool{}
		dry.lastHeap = map[string]*Term{}
		dry.unchargedSeen = seen
		df := dry.top()
		x.havocLoop(dry, df, li, W)
		x.havocLoopGhosts(dry, ghostW, ghostSample)
		denv := x.specEnv(dry, df, conOr(df, dry))
		x.assumeAtHead(dry, denv, invs, ghostW)
		for k := range broken {
			delete(broken, k)
		}
		dal := &activeLoop{info: li, written: W, entryK: entryK, broken: broken, havocSym: map[string]*Term{}, ghostW: ghostW, ghostSample: ghostSample, headGhosts: copyGhosts(dry.ghosts)}
		for n := range W {
			dal.havocSym[n] = dry.heap[n]
		}
		df.loops[li.Header] = dal
		saved := x.work
		x.work = []*State{dry}
		x.runAll()
		x.work = saved
		grew := false
		for n := range dry.written {
			if _, ok := W[n]; !ok {
				if h := dry.lastHeap[n]; h != nil {
					W[n] = h.Sort
					grew = true
				}
			}
		}
		if !grew && len(ghostW) == nGhostW {
			break
		}
	}
	if len(seen) > 0 {
		// an uncontracted callee writes through a pointer argument inside the loop: those heap
		// arrays are excluded from frame reasoning from here on (no frame assumption, no frame
		// obligation) instead of assuming an invariant the callee may break
		nu := map[string]bool{}
		for k := range st.unframed {
			nu[k] = true
		}
		for k := range seen {
			nu[k] = true
			if st.unchargedSeen != nil {
				st.unchargedSeen[k] = true
			}
			if !st.dry {
				st.note("heap " + k + " is written by an uncontracted callee inside " + site + ": not framed")
			}
		}
		st.unframed = nu
	}
	// establishment, in the state before the havoc
	var mods []Loc
	if framed {
		mods = x.contractMods(st, topF)
	}
	if !st.dry {
		env := x.specEnv(st, f, conOr(f, st))
		for _, cl := range invs {
			// on entry no iteration has run: the per-iteration view starts from the entry state
			env.viewBases, env.viewHead = ghostW, st.ghosts
			if cl.Overall {
				env.viewBases, env.viewHead = nil, nil
			}
			if g, ok := x.goalOf(st, env, cl, "inv-establish", site); ok {
				x.emit(st, "inv-establish", cl.Label, site, g, cl.Where)
			}
		}
		if framed {
			for _, name := range sortedKeys(W) {
				cur := st.heap[name]
				if cur == nil || strings.HasPrefix(name, "map:") || st.unframed[name] {
					continue
				}
				r := st.freshInt("frame_r")
				st.skolems = append(st.skolems, r)
				x.emit(st, "inv-establish", "frame:"+name, site, frameOf(name, cur, mods, r), "(implicit loop frame)")
				st.skolems = st.skolems[:len(st.skolems)-1]
			}
		}
	}
	entryHeap := map[string]*Term{}
	for n := range W {
		if h := st.heap[n]; h != nil && !broken[n] && !strings.HasPrefix(n, "map:") {
			entryHeap[n] = h
		}
	}
	x.havocLoop(st, f, li, W)
	havocSym := map[string]*Term{}
	for _, n := range sortedKeys(entryHeap) {
		// the body writes this array only at objects it allocates: everything that exists on
		// loop entry keeps its contents (checked again on every back edge)
		havocSym[n] = st.heap[n]
		x.fresh++
		r := Sym(fmt.Sprintf("fr?%d", x.fresh), SInt)
		st.assume(Forall([]*Term{r}, Implies(Le(r, IntLit(entryK)), Eq(Select(st.heap[n], r), Select(entryHeap[n], r)))))
	}
	if framed {
		// implicit frame invariant: relative to the pre-state of the function, objects that
		// existed before the call differ only at the contract's modifies locations
		for _, name := range sortedKeys(W) {
			if strings.HasPrefix(name, "map:") || st.unframed[name] {
				continue
			}
			x.fresh++
			r := Sym(fmt.Sprintf("fr?%d", x.fresh), SInt)
			st.assume(Forall([]*Term{r}, frameOf(name, st.heap[name], mods, r)))
		}
	}
	x.havocLoopGhosts(st, ghostW, ghostSample)
	env := x.specEnv(st, f, conOr(f, st))
	x.assumeAtHead(st, env, invs, ghostW)
	al := &activeLoop{info: li, written: W, entryK: entryK, havocSym: havocSym, kept: havocSym, broken: broken, ghostW: ghostW, ghostSample: ghostSample, headGhosts: copyGhosts(st.ghosts)}
	al.iterHeap = copyHeap(st.heap)
	al.iterCells = map[*ssa.Alloc]Val{}
	for k, v := range f.cells {
		al.iterCells[k] = v
	}
	if f.contract != nil {
		if dec := f.contract.LoopDec[x.eng.contractLoopOrd(f, li)]; dec != nil {
			al.dec0 = env.evalInt(dec.Expr)
		}
	}
	f.loops[li.Header] = al
	st.trail = append(st.trail, fmt.Sprintf("%s:loop%d", f.name, li.Ord))
}

func (x *Explorer) havocLoop(st *State, f *Frame, li *LoopInfo, W map[string]string) {
	for _, a := range li.Cells {
		if _, ok := f.cells[a]; !ok {
			continue // declared inside the loop, not yet live
		}
		f.cells[a] = st.freshVal(allocElem(a), "loop_"+a.Comment)
	}
	for _, n := range sortedKeys(W) {
		if st.written != nil {
			st.written[n] = true
		}
		st.heap[n] = st.freshSym("loopH:"+n, W[n])
	}
}

// freshAbove: cur is base updated only at literal references of objects allocated after k.
func freshAbove(cur, base *Term, k int64) bool {
	for depth := 0; depth < 100000; depth++ {
		if cur == base {
			return true
		}
		if cur.Op != "store" {
			return false
		}
		i := cur.Args[1]
		if !i.IsLit() || !i.Int.IsInt64() || i.Int.Int64() <= k || i.Int.Int64() >= 1000000000 {
			return false
		}
		cur = cur.Args[0]
	}
	return false
}

// ---- ghost state and loops -----------------------------------------------------------------
//
// Ghost state (observer records, channel counters) is program state: at a loop head the ghosts
// that some iteration changes (found by the dry runs) become unconstrained - any number of
// iterations may have run - with only their counters known not to have decreased. `loop N overall`
// clauses read the ghosts as they are and are ordinary inductive invariants over them (proved
// on entry and on every back edge, assumed at the head). `loop N invariant` clauses read those
// ghosts *per iteration*: a counter counts from the head of the iteration (`pb.count == 1`: this
// iteration published once), the was-called flag says "called in this iteration". Such a clause
// describes the iteration that just ended, not the state at the head, so of an invariant only
// the top-level conjuncts that do not read a changing ghost are assumed at the head. After the
// loop the ghosts are what they are - head state plus the last, partial iteration - so clauses
// after the loop and postconditions count every iteration.

func ghostBase(key string) string {
	for _, p := range []string{"recv:", "send:", "close:"} {
		if strings.HasPrefix(key, p) {
			if i := strings.LastIndex(key, "."); i > 0 {
				return key[:i]
			}
			return key
		}
	}
	if i := strings.Index(key, "."); i > 0 {
		return "obs:" + key[:i]
	}
	return "obs:" + key
}

func copyGhosts(m map[string]Val) map[string]Val {
	n := make(map[string]Val, len(m))
	for k, v := range m {
		n[k] = v
	}
	return n
}

func sameVal(a, b Val) bool {
	switch p := a.(type) {
	case VInt:
		q, ok := b.(VInt)
		return ok && p.T == q.T
	case VPtr:
		q, ok := b.(VPtr)
		return ok && p.Ref == q.Ref && p.Alloc == q.Alloc && len(p.Path) == len(q.Path)
	case VIface:
		q, ok := b.(VIface)
		return ok && p.Tag == q.Tag && p.Val == q.Val
	case VSlice:
		q, ok := b.(VSlice)
		return ok && p.Arr == q.Arr && p.Off == q.Off && p.Len == q.Len
	case VNil:
		_, ok := b.(VNil)
		return ok
	case nil:
		return b == nil
	}
	return reflect.DeepEqual(a, b)
}

// havocLoopGhosts: at a loop head, the ghosts of the bases in w are unknown but for their
// counters not having gone down.
func (x *Explorer) havocLoopGhosts(st *State, w map[string]bool, sample map[string]Val) {
	for _, base := range sortedKeysB(w) {
		cntKey, flagKey := ghostKeys(base)
		c := st.freshInt("iters_so_far")
		if cur, ok := st.ghosts[cntKey].(VInt); ok && cur.T != nil {
			st.assume(Ge(c, cur.T))
		} else {
			st.assume(Ge(c, IntLit(0)))
		}
		st.ghosts[cntKey] = VInt{T: c}
		if flagKey != "" {
			st.ghosts[flagKey] = VInt{T: Gt(c, IntLit(0))}
		}
		keys := map[string]bool{}
		for k := range sample {
			if ghostBase(k) == base {
				keys[k] = true
			}
		}
		for k := range st.ghosts {
			if ghostBase(k) == base {
				keys[k] = true
			}
		}
		for _, k := range sortedKeysB(keys) {
			if k == cntKey || k == flagKey {
				continue
			}
			if cur, ok := st.ghosts[k]; ok {
				st.ghosts[k] = x.havocLike(st, cur)
			} else {
				st.ghosts[k] = x.havocLike(st, sample[k])
			}
		}
	}
}

// assumeAtHead assumes the loop clauses at the head: overall clauses as they are, of the
// per-iteration clauses the top-level conjuncts that read no changing ghost.
func (x *Explorer) assumeAtHead(st *State, env *SpecEnv, invs []*Clause, w map[string]bool) {
	for _, cl := range invs {
		if cl.Overall {
			x.assumeClause(st, env, cl)
			continue
		}
		for _, c := range conjuncts(cl.Expr) {
			if x.readsLoopGhost(st, c, w) {
				continue
			}
			x.assumeClause(st, env, &Clause{Label: cl.Label, Text: cl.Text, Expr: c, Where: cl.Where})
		}
	}
}

func conjuncts(e *SExpr) []*SExpr {
	if e != nil && e.Kind == "binary" && e.Op == "&&" && len(e.Args) == 2 {
		return append(conjuncts(e.Args[0]), conjuncts(e.Args[1])...)
	}
	return []*SExpr{e}
}

// readsLoopGhost: does the expression mention a ghost of the set w?
func (x *Explorer) readsLoopGhost(st *State, root *SExpr, w map[string]bool) bool {
	if len(w) == 0 {
		return false
	}
	obs := map[string]bool{}
	if len(st.frames) > 0 && st.frames[0].contract != nil {
		for _, o := range st.frames[0].contract.Observes {
			obs[o.Name] = true
		}
	}
	found := false
	seenPred := map[string]bool{}
	var walk func(e *SExpr, bound map[string]bool)
	walk = func(e *SExpr, bound map[string]bool) {
		if e == nil || found {
			return
		}
		switch e.Kind {
		case "ident":
			if obs[e.Name] && !bound[e.Name] && w["obs:"+e.Name] {
				found = true
			}
		case "call":
			if len(e.Args) > 0 && e.Args[0].Kind == "ident" {
				n := e.Args[0].Name
				switch n {
				case "recvCount", "recvOpen":
					if len(e.Args) == 2 && w["recv:"+e.Args[1].Name] {
						found = true
					}
				case "sendCount", "sent":
					if len(e.Args) == 2 && w["send:"+e.Args[1].Name] {
						found = true
					}
				case "closeCount":
					if len(e.Args) == 2 && w["close:"+e.Args[1].Name] {
						found = true
					}
				case "now":
					if w["obs:time"] {
						found = true
					}
				}
				if p, ok := st.eng.db.Preds[n]; ok && !seenPred[n] {
					seenPred[n] = true
					pb := map[string]bool{}
					for _, q := range p.Params {
						pb[q] = true
					}
					walk(p.Body, pb)
				}
				for _, a := range e.Args[1:] {
					walk(a, bound)
				}
				return
			}
		case "forall", "exists":
			nb := map[string]bool{}
			for k := range bound {
				nb[k] = true
			}
			for _, b := range e.Bound {
				nb[b] = true
			}
			for _, a := range e.Args {
				walk(a, nb)
			}
			for _, h := range e.Hints {
				walk(h, nb)
			}
			return
		}
		for _, a := range e.Args {
			walk(a, bound)
		}
	}
	walk(root, map[string]bool{})
	return found
}

// havocLike: an unconstrained value of the same shape.
func (x *Explorer) havocLike(st *State, v Val) Val {
	switch p := v.(type) {
	case VInt:
		if p.T == nil {
			return v
		}
		return VInt{T: st.freshSym("earlier_iter", p.T.Sort)}
	case VPtr:
		if p.Alloc != nil || p.Ref == nil || len(p.Path) != 0 {
			return v
		}
		return VPtr{Ref: st.freshInt("earlier_iter_ref"), Root: p.Root}
	case VIface:
		return VIface{Tag: st.freshInt("earlier_iter_tag"), Val: st.freshInt("earlier_iter_val")}
	case VSlice:
		return VSlice{Arr: st.freshInt("earlier_iter_arr"), Off: st.freshInt("earlier_iter_off"), Len: st.freshInt("earlier_iter_len"), Cap: st.freshInt("earlier_iter_cap"), Elem: p.Elem}
	case VStruct:
		n := VStruct{T: p.T, F: make([]Val, len(p.F))}
		for i, f := range p.F {
			n.F[i] = x.havocLike(st, f)
		}
		return n
	case VTuple:
		n := VTuple{E: make([]Val, len(p.E))}
		for i, f := range p.E {
			n.E[i] = x.havocLike(st, f)
		}
		return n
	}
	return v
}

func sortedKeysB(m map[string]bool) []string {
	r := make([]string, 0, len(m))
	for k := range m {
		r = append(r, k)
	}
	sort.Strings(r)
	return r
}

// conOr: the contract whose scope (package, predicates) clauses are read in - the frame's own, or
// for a helper frame the one of the function under contract.
func conOr(f *Frame, st *State) *Contract {
	if f.contract != nil {
		return f.contract
	}
	return st.frames[0].contract
}
