package main

// Natural loops, static site ordinals, and the loop-head rule (establish / havoc / assume /
// preserve) with a dynamically inferred modification set.

import (
	"fmt"
	"go/token"
	"go/types"
	"reflect"
	"sort"
	"strings"

	"golang.org/x/tools/go/ssa"
)

type LoopInfo struct {
	Header *ssa.BasicBlock
	Body   map[*ssa.BasicBlock]bool
	Ord    int
	Cells  []*ssa.Alloc
	Pos    token.Pos
}

func (e *Engine) loopsOf(fn *ssa.Function) []*LoopInfo {
	if l, ok := e.loopCache[fn]; ok {
		return l
	}
	byHeader := map[*ssa.BasicBlock]*LoopInfo{}
	for _, b := range fn.Blocks {
		for _, s := range b.Succs {
			if s.Dominates(b) { // back edge b -> s
				li := byHeader[s]
				if li == nil {
					li = &LoopInfo{Header: s, Body: map[*ssa.BasicBlock]bool{s: true}}
					byHeader[s] = li
				}
				// reverse reachability from b up to s
				stack := []*ssa.BasicBlock{b}
				for len(stack) > 0 {
					n := stack[len(stack)-1]
					stack = stack[:len(stack)-1]
					if li.Body[n] {
						continue
					}
					li.Body[n] = true
					stack = append(stack, n.Preds...)
				}
			}
		}
	}
	var out []*LoopInfo
	for _, li := range byHeader {
		li.Pos = token.NoPos
		for b := range li.Body {
			for _, ins := range b.Instrs {
				if p := ins.Pos(); p.IsValid() && (!li.Pos.IsValid() || p < li.Pos) {
					li.Pos = p
				}
			}
		}
		seen := map[*ssa.Alloc]bool{}
		for b := range li.Body {
			for _, ins := range b.Instrs {
				if s, ok := ins.(*ssa.Store); ok {
					if a := rootAlloc(s.Addr); a != nil && !a.Heap && !seen[a] {
						seen[a] = true
						li.Cells = append(li.Cells, a)
					}
				}
			}
		}
		out = append(out, li)
	}
	sort.Slice(out, func(i, j int) bool {
		if out[i].Pos != out[j].Pos {
			return out[i].Pos < out[j].Pos
		}
		return out[i].Header.Index < out[j].Header.Index
	})
	for i, li := range out {
		li.Ord = i + 1
	}
	e.loopCache[fn] = out
	return out
}

func rootAlloc(v ssa.Value) *ssa.Alloc {
	for {
		switch a := v.(type) {
		case *ssa.Alloc:
			return a
		case *ssa.FieldAddr:
			v = a.X
		case *ssa.IndexAddr:
			v = a.X
		default:
			return nil
		}
	}
}

func (e *Engine) loopAt(fn *ssa.Function, b *ssa.BasicBlock) *LoopInfo {
	for _, li := range e.loopsOf(fn) {
		if li.Header == b {
			return li
		}
	}
	return nil
}

// ---- static site names --------------------------------------------------------------

type siteTable struct {
	name map[ssa.Instruction]string
}


func calleeName(c *ssa.CallCommon) string {
	if c.IsInvoke() {
		return c.Method.Name()
	}
	switch v := c.Value.(type) {
	case *ssa.Function:
		n := v.Name()
		if o := v.Origin(); o != nil {
			n = o.Name()
		}
		return n
	case *ssa.Builtin:
		return v.Name()
	case *ssa.MakeClosure:
		return v.Fn.Name()
	}
	return valueName(c.Value)
}

func valueName(v ssa.Value) string {
	switch a := v.(type) {
	case *ssa.Alloc:
		return a.Comment
	case *ssa.Parameter:
		return a.Name()
	case *ssa.FieldAddr:
		return structFieldName(a)
	case *ssa.UnOp:
		return valueName(a.X)
	case *ssa.FreeVar:
		return a.Name()
	}
	return "fn"
}

func structFieldName(fa *ssa.FieldAddr) string {
	pt, ok := fa.X.Type().Underlying().(*types.Pointer)
	if !ok {
		return "field"
	}
	st, ok := pt.Elem().Underlying().(*types.Struct)
	if !ok {
		return "field"
	}
	return st.Field(fa.Field).Name()
}

func allocElem(a *ssa.Alloc) types.Type { return a.Type().(*types.Pointer).Elem() }

// siteOf gives a stable name to an instruction: Kind#k where k ranks the instruction by
// source position among instructions of the same SSA kind (calls: by callee name).
func (e *Engine) siteOf(f *Frame, ins ssa.Instruction) string {
	fn := f.fn
	if e.siteCache == nil {
		e.siteCache = map[*ssa.Function]*siteTable{}
	}
	tab := e.siteCache[fn]
	if tab == nil {
		tab = &siteTable{name: map[ssa.Instruction]string{}}
		type item struct {
			ins  ssa.Instruction
			kind string
			pos  token.Pos
			seq  int
		}
		var items []item
		seq := 0
		for _, b := range fn.Blocks {
			for _, i := range b.Instrs {
				seq++
				kind := reflect.TypeOf(i).Elem().Name()
				if ci, ok := i.(ssa.CallInstruction); ok {
					kind = calleeName(ci.Common())
				}
				items = append(items, item{i, kind, i.Pos(), seq})
			}
		}
		sort.SliceStable(items, func(a, b int) bool {
			if items[a].pos != items[b].pos {
				return items[a].pos < items[b].pos
			}
			return items[a].seq < items[b].seq
		})
		cnt := map[string]int{}
		for _, it := range items {
			cnt[it.kind]++
			tab.name[it.ins] = fmt.Sprintf("%s#%d", it.kind, cnt[it.kind])
		}
		e.siteCache[fn] = tab
	}
	n := tab.name[ins]
	if f.name != "" {
		return f.name + "/" + n
	}
	return n
}

// ---- loop head ----------------------------------------------------------------------

func (x *Explorer) loopInvs(f *Frame, li *LoopInfo) []*Clause {
	if f.contract == nil {
		return nil
	}
	return f.contract.LoopInv[li.Ord]
}

func (x *Explorer) atLoopHead(st *State, f *Frame, li *LoopInfo) {
	if st.dead {
		return
	}
	invs := x.loopInvs(f, li)
	site := fmt.Sprintf("loop#%d", li.Ord)
	if f.name != "" {
		site = f.name + "/" + site
	}
	framed := len(st.frames) == 1 && f.contract != nil
	frameOf := func(name string, cur *Term, mods []Loc, r *Term) *Term {
		old := st.oldHeap[name]
		if old == nil {
			old = Sym("H0:"+name, cur.Sort)
		}
		return Implies(st.unchargedGuard(name, r), frameFormula(name, cur, old, mods, r))
	}
	if al := f.loops[li.Header]; al != nil {
		// arrival over a back edge: preservation, then the path ends
		for name, sym := range al.havocSym {
			if cur := st.heap[name]; cur != nil && !freshAbove(cur, sym, al.entryK) {
				if st.dry {
					al.broken[name] = true
				} else if al.kept[name] != nil {
					// cannot happen when the dry runs covered this path; proved rather than assumed
					r := st.freshInt("frame_r")
					st.skolems = append(st.skolems, r)
					x.emit(st, "inv-preserve", "entry-frame:"+name, site, Implies(Le(r, IntLit(al.entryK)), Eq(Select(cur, r), Select(sym, r))), "(implicit loop frame)")
					st.skolems = st.skolems[:len(st.skolems)-1]
				}
			}
		}
		if !st.dry {
			env := x.specEnv(st, f, f.contract)
			env.iterHeap, env.iterCells = al.iterHeap, al.iterCells
			for _, cl := range invs {
				if g, ok := x.goalOf(st, env, cl, "inv-preserve", site); ok {
					x.emit(st, "inv-preserve", cl.Label, site, g, cl.Where)
				}
			}
			if framed {
				mods := x.contractMods(st, f)
				for _, name := range sortedKeys(al.written) {
					cur := st.heap[name]
					if cur == nil || strings.HasPrefix(name, "map:") || st.unframed[name] {
						continue
					}
					r := st.freshInt("frame_r")
					st.skolems = append(st.skolems, r)
					x.emit(st, "inv-preserve", "frame:"+name, site, frameOf(name, cur, mods, r), "(implicit loop frame)")
					st.skolems = st.skolems[:len(st.skolems)-1]
				}
			}
			if f.contract != nil {
				if dec := f.contract.LoopDec[li.Ord]; dec != nil && al.dec0 != nil {
					env.goal = true
					d := env.evalInt(dec.Expr)
					x.emit(st, "decreases", "variant", site, And(Ge(al.dec0, IntLit(0)), Lt(d, al.dec0)), dec.Where)
				}
			}
		}
		st.dead = true
		return
	}
	// first arrival: infer the set of heap arrays written by the body (fixpoint over dry runs)
	W := map[string]string{}
	seen := map[string]bool{}
	broken := map[string]bool{}
	entryK := int64(refBase + x.nextRef)
	depth := len(st.frames)
	for iter := 0; iter < 4; iter++ {
		dry := st.clone()
		dry.dry = true
		dry.dryLoop = li
		dry.dryDepth = depth
		dry.written = map[string]bool{}
		dry.lastHeap = map[string]*Term{}
		dry.unchargedSeen = seen
		df := dry.top()
		x.havocLoop(dry, df, li, W)
		denv := x.specEnv(dry, df, df.contract)
		for _, cl := range invs {
			x.assumeClause(dry, denv, cl)
		}
		for k := range broken {
			delete(broken, k)
		}
		dal := &activeLoop{info: li, written: W, entryK: entryK, broken: broken, havocSym: map[string]*Term{}}
		for n := range W {
			dal.havocSym[n] = dry.heap[n]
		}
		df.loops[li.Header] = dal
		saved := x.work
		x.work = []*State{dry}
		x.runAll()
		x.work = saved
		grew := false
		for n := range dry.written {
			if _, ok := W[n]; !ok {
				if h := dry.lastHeap[n]; h != nil {
					W[n] = h.Sort
					grew = true
				}
			}
		}
		if !grew {
			break
		}
	}
	if len(seen) > 0 {
		// an uncontracted callee writes through a pointer argument inside the loop: those heap
		// arrays are excluded from frame reasoning from here on (no frame assumption, no frame
		// obligation) instead of assuming an invariant the callee may break
		nu := map[string]bool{}
		for k := range st.unframed {
			nu[k] = true
		}
		for k := range seen {
			nu[k] = true
			if st.unchargedSeen != nil {
				st.unchargedSeen[k] = true
			}
			if !st.dry {
				st.note("heap " + k + " is written by an uncontracted callee inside " + site + ": not framed")
			}
		}
		st.unframed = nu
	}
	// establishment, in the state before the havoc
	var mods []Loc
	if framed {
		mods = x.contractMods(st, f)
	}
	if !st.dry {
		env := x.specEnv(st, f, f.contract)
		for _, cl := range invs {
			if g, ok := x.goalOf(st, env, cl, "inv-establish", site); ok {
				x.emit(st, "inv-establish", cl.Label, site, g, cl.Where)
			}
		}
		if framed {
			for _, name := range sortedKeys(W) {
				cur := st.heap[name]
				if cur == nil || strings.HasPrefix(name, "map:") || st.unframed[name] {
					continue
				}
				r := st.freshInt("frame_r")
				st.skolems = append(st.skolems, r)
				x.emit(st, "inv-establish", "frame:"+name, site, frameOf(name, cur, mods, r), "(implicit loop frame)")
				st.skolems = st.skolems[:len(st.skolems)-1]
			}
		}
	}
	entryHeap := map[string]*Term{}
	for n := range W {
		if h := st.heap[n]; h != nil && !broken[n] && !strings.HasPrefix(n, "map:") {
			entryHeap[n] = h
		}
	}
	x.havocLoop(st, f, li, W)
	havocSym := map[string]*Term{}
	for _, n := range sortedKeys(entryHeap) {
		// the body writes this array only at objects it allocates: everything that exists on
		// loop entry keeps its contents (checked again on every back edge)
		havocSym[n] = st.heap[n]
		x.fresh++
		r := Sym(fmt.Sprintf("fr?%d", x.fresh), SInt)
		st.assume(Forall([]*Term{r}, Implies(Le(r, IntLit(entryK)), Eq(Select(st.heap[n], r), Select(entryHeap[n], r)))))
	}
	if framed {
		// implicit frame invariant: relative to the pre-state of the function, objects that
		// existed before the call differ only at the contract's modifies locations
		for _, name := range sortedKeys(W) {
			if strings.HasPrefix(name, "map:") || st.unframed[name] {
				continue
			}
			x.fresh++
			r := Sym(fmt.Sprintf("fr?%d", x.fresh), SInt)
			st.assume(Forall([]*Term{r}, frameOf(name, st.heap[name], mods, r)))
		}
	}
	env := x.specEnv(st, f, f.contract)
	for _, cl := range invs {
		x.assumeClause(st, env, cl)
	}
	al := &activeLoop{info: li, written: W, entryK: entryK, havocSym: havocSym, kept: havocSym, broken: broken}
	al.iterHeap = copyHeap(st.heap)
	al.iterCells = map[*ssa.Alloc]Val{}
	for k, v := range f.cells {
		al.iterCells[k] = v
	}
	if f.contract != nil {
		if dec := f.contract.LoopDec[li.Ord]; dec != nil {
			al.dec0 = env.evalInt(dec.Expr)
		}
	}
	f.loops[li.Header] = al
	st.trail = append(st.trail, fmt.Sprintf("%s:loop%d", f.name, li.Ord))
}

func (x *Explorer) havocLoop(st *State, f *Frame, li *LoopInfo, W map[string]string) {
	for _, a := range li.Cells {
		if _, ok := f.cells[a]; !ok {
			continue // declared inside the loop, not yet live
		}
		f.cells[a] = st.freshVal(allocElem(a), "loop_"+a.Comment)
	}
	for _, n := range sortedKeys(W) {
		if st.written != nil {
			st.written[n] = true
		}
		st.heap[n] = st.freshSym("loopH:"+n, W[n])
	}
}

// freshAbove: cur is base updated only at literal references of objects allocated after k.
func freshAbove(cur, base *Term, k int64) bool {
	for depth := 0; depth < 100000; depth++ {
		if cur == base {
			return true
		}
		if cur.Op != "store" {
			return false
		}
		i := cur.Args[1]
		if !i.IsLit() || !i.Int.IsInt64() || i.Int.Int64() <= k || i.Int.Int64() >= 1000000000 {
			return false
		}
		cur = cur.Args[0]
	}
	return false
}
