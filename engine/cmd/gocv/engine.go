package main

// Engine: loading, function keys, interning, the path state.

import (
	"fmt"
	"go/token"
	"go/types"
	"os"
	"path/filepath"
	"sort"
	"strings"

	"golang.org/x/tools/go/packages"
	"golang.org/x/tools/go/ssa"
	"golang.org/x/tools/go/ssa/ssautil"
)

type Engine struct {
	loopMap     map[*ssa.Function]map[int]int // current loop ordinal -> ordinal in the contract (only when the loop count changed)
	keyAlias    map[*ssa.Function]string      // functions known under the key a contract was written for (rebindFunctions)
	rebindNotes []string
	bindBase    bindingBase // locals and loops of the contracted functions on the tree the contracts were written against
	siteCache   map[*ssa.Function]*siteTable
	prog        *ssa.Program
	fset        *token.FileSet
	pkgs        []*packages.Package
	allPkgs     map[string]*packages.Package
	modulePath  string
	moduleDir   string
	db          *SpecDB

	leafCache map[string][]Leaf
	strIDs    map[string]int64
	strByID   map[int64]string
	typeIDs   map[string]int64
	typeByID  map[int64]types.Type
	fnIDs     map[*ssa.Function]int64
	fnByID    map[int64]*ssa.Function
	globalIDs map[*ssa.Global]int64
	fnByKey   map[string]*ssa.Function
	loopCache map[*ssa.Function][]*LoopInfo

	maxInline int
	maxPaths  int
	verbose   bool
}

func NewEngine() *Engine {
	return &Engine{
		leafCache: map[string][]Leaf{}, strIDs: map[string]int64{}, strByID: map[int64]string{},
		typeIDs: map[string]int64{}, typeByID: map[int64]types.Type{}, fnIDs: map[*ssa.Function]int64{}, fnByID: map[int64]*ssa.Function{},
		globalIDs: map[*ssa.Global]int64{}, fnByKey: map[string]*ssa.Function{}, loopCache: map[*ssa.Function][]*LoopInfo{},
		allPkgs: map[string]*packages.Package{}, maxInline: 6, maxPaths: 20000, bindBase: loadBindingBase(),
	}
}

// Load type-checks the packages (patterns relative to dir) and builds naive-form SSA.
func (e *Engine) Load(dir string, overlay map[string][]byte, patterns ...string) error {
	cfg := &packages.Config{
		Mode:       packages.LoadAllSyntax | packages.NeedModule,
		Dir:        dir,
		BuildFlags: []string{"-tags=verif"},
		Overlay:    overlay,
		Env:        append(os.Environ(), "GOFLAGS=-mod=mod", "GOPROXY=off"),
	}
	pkgs, err := packages.Load(cfg, patterns...)
	if err != nil {
		return err
	}
	var errs []string
	packages.Visit(pkgs, nil, func(p *packages.Package) {
		e.allPkgs[p.PkgPath] = p
		for _, pe := range p.Errors {
			errs = append(errs, p.PkgPath+": "+pe.Error())
		}
	})
	if len(errs) > 0 {
		if len(errs) > 8 {
			errs = errs[:8]
		}
		return fmt.Errorf("package errors:\n  %s", strings.Join(errs, "\n  "))
	}
	e.pkgs = pkgs
	for _, p := range pkgs {
		if p.Module != nil {
			e.modulePath = p.Module.Path
			e.moduleDir = p.Module.Dir
		}
	}
	prog, _ := ssautil.AllPackages(pkgs, ssa.NaiveForm|ssa.GlobalDebug|ssa.InstantiateGenerics)
	prog.Build()
	e.prog = prog
	e.fset = prog.Fset
	// index functions by key: every declared function and method of the loaded packages
	var addFn func(fn *ssa.Function)
	addFn = func(fn *ssa.Function) {
		if fn == nil {
			return
		}
		if k := e.fnKey(fn); k != "" {
			e.fnByKey[k] = fn
		}
		for _, a := range fn.AnonFuncs {
			addFn(a)
		}
	}
	for _, p := range e.allPkgs {
		if p.TypesInfo == nil {
			continue
		}
		if p.Module == nil || p.Module.Path != e.modulePath {
			continue
		}
		for _, obj := range p.TypesInfo.Defs {
			if fo, ok := obj.(*types.Func); ok {
				addFn(prog.FuncValue(fo))
			}
		}
	}
	return nil
}

func namedOf(t types.Type) *types.Named {
	for {
		switch x := t.(type) {
		case *types.Pointer:
			t = x.Elem()
		case *types.Named:
			return x
		case *types.Alias:
			t = types.Unalias(x)
		default:
			return nil
		}
	}
}

// fnKey is the stable name of a function: pkgpath.[Type.]name, closures as parent$N.
func (e *Engine) fnKey(fn *ssa.Function) string {
	if fn == nil {
		return ""
	}
	if o := fn.Origin(); o != nil {
		fn = o
	}
	if k, ok := e.keyAlias[fn]; ok {
		return k // a contract followed this function from its old key (rebindFunctions)
	}
	if p := fn.Parent(); p != nil {
		name := fn.Name()
		if i := strings.LastIndex(name, "$"); i >= 0 {
			return e.fnKey(p) + name[i:]
		}
		return e.fnKey(p) + "$" + name
	}
	if fn.Signature != nil && fn.Signature.Recv() != nil {
		n := namedOf(fn.Signature.Recv().Type())
		if n != nil && n.Obj().Pkg() != nil {
			return n.Obj().Pkg().Path() + "." + n.Obj().Name() + "." + fn.Name()
		}
		if n != nil {
			return n.Obj().Name() + "." + fn.Name()
		}
	}
	if fn.Pkg != nil {
		return fn.Pkg.Pkg.Path() + "." + fn.Name()
	}
	if fn.Object() != nil && fn.Object().Pkg() != nil {
		return fn.Object().Pkg().Path() + "." + fn.Name()
	}
	return fn.String()
}

func (e *Engine) strID(s string) int64 {
	if id, ok := e.strIDs[s]; ok {
		return id
	}
	id := int64(len(e.strIDs) + 1)
	if s == "" {
		id = 0
	}
	e.strIDs[s] = id
	e.strByID[id] = s
	return id
}

func (e *Engine) typeID(t types.Type) int64 {
	k := t.String()
	if id, ok := e.typeIDs[k]; ok {
		return id
	}
	id := int64(len(e.typeIDs) + 1)
	e.typeIDs[k] = id
	e.typeByID[id] = t
	return id
}

func (e *Engine) fnID(fn *ssa.Function) int64 {
	if id, ok := e.fnIDs[fn]; ok {
		return id
	}
	id := int64(len(e.fnIDs) + 7000001)
	e.fnIDs[fn] = id
	e.fnByID[id] = fn
	return id
}

func (e *Engine) globalRef(g *ssa.Global) int64 {
	if id, ok := e.globalIDs[g]; ok {
		return id
	}
	id := int64(len(e.globalIDs) + 2000000001)
	e.globalIDs[g] = id
	return id
}

func (e *Engine) inModule(fn *ssa.Function) bool {
	if o := fn.Origin(); o != nil {
		fn = o
	}
	for fn.Parent() != nil {
		fn = fn.Parent()
	}
	var path string
	if fn.Pkg != nil {
		path = fn.Pkg.Pkg.Path()
	} else if fn.Object() != nil && fn.Object().Pkg() != nil {
		path = fn.Object().Pkg().Path()
	}
	if path == e.modulePath || strings.HasPrefix(path, e.modulePath+"/") {
		return true
	}
	// other modules of the same repository (core, types, ...) count as in scope as well
	if p := e.allPkgs[path]; p != nil && p.Module != nil && p.Module.Dir != "" {
		root := repoRoot()
		return p.Module.Dir == root || strings.HasPrefix(p.Module.Dir, root+"/")
	}
	return false
}

func (e *Engine) posStr(p token.Pos) string {
	if !p.IsValid() {
		return "?"
	}
	pp := e.fset.Position(p)
	rel, err := filepath.Rel(e.moduleDir, pp.Filename)
	if err != nil {
		rel = pp.Filename
	}
	return fmt.Sprintf("%s:%d", rel, pp.Line)
}

// ---- path state ---------------------------------------------------------------------

type deferred struct {
	call *ssa.Defer
	fn   Val
	args []Val
}

type Frame struct {
	fn       *ssa.Function
	env      map[ssa.Value]Val
	cells    map[*ssa.Alloc]Val
	cellOrd  map[*ssa.Alloc]int // creation order of the cells (latest declaration wins a name)
	block    *ssa.BasicBlock
	prev     *ssa.BasicBlock
	pc       int
	defers   []deferred
	free     []Val
	contract *Contract // contract being verified (top frame only)
	loops    map[*ssa.BasicBlock]*activeLoop
	name     string // inline chain name
	paramVal map[string]Val
	// names of function-typed parameters → for sub-contracts
	callOrd  map[string]int
	unroll   map[*ssa.BasicBlock]int       // arrivals at the heads of loops that are unrolled (copy on write)
	borrowed map[*ssa.BasicBlock][]*Clause // helper frame: invariants taken over from the function under contract (nil entry: none)
	retRes   ssa.Value
	retDefer bool
	inArgs   []Val // inlined callee: the arguments and the byte contents they had at the call, for observers
	inSnaps  []*Term
}

type activeLoop struct {
	iterHeap  map[string]*Term
	iterCells map[*ssa.Alloc]Val
	info      *LoopInfo
	written   map[string]string
	dec0      *Term
	// objects that exist on loop entry (references <= entryK) and heap arrays the body only
	// writes at objects it allocates itself: those arrays keep their entry contents there
	entryK   int64
	havocSym map[string]*Term
	broken   map[string]bool  // shared with the dry runs: arrays for which this does not hold
	kept     map[string]*Term // adopted: name -> heap term on loop entry
	// ghost state (observers, channel counters): the values on loop entry, and the ghosts that
	// some iteration changes (found by the dry runs, shared with them)
	ghostW      map[string]bool // bases of the ghosts some iteration changes
	ghostSample map[string]Val  // key -> a value seen for it (shape for the havoc at the head)
	headGhosts  map[string]Val  // ghost state at the head of the current iteration
}

type State struct {
	eng           *Engine
	x             *Explorer
	pc            []*Term
	facts         []*Term
	factSet       map[string]bool
	heap          map[string]*Term
	oldHeap       map[string]*Term
	frames        []*Frame
	ghosts        map[string]Val
	inlCallSeen   map[string]int // calls made from inlined helpers so far, per callee name (copy on write)
	inPlaceForks  int            // how often this path has explored the in-place outcome of an append (capped)
	closures      map[string]VFunc
	trail         []string
	written       map[string]bool
	uncharged     []unchargedRef
	unchargedSeen map[string]bool // dry runs: heaps havocked through pointer arguments of uncontracted callees
	unframed      map[string]bool // heaps excluded from frame reasoning (see loops.go)
	writtenCells  map[*ssa.Alloc]bool
	dry           bool
	dryLoop       *LoopInfo
	dryDepth      int
	lastHeap      map[string]*Term // shared across forks of a dry run: last term written per heap name
	dead          bool
	notes         map[string]int
	nopanic       bool
	retOrd        int
	skolems       []*Term
	obsSeq        int
	havocNames    []string // heap arrays released wholesale by a callee: later first touches start from a fresh symbol
}

func (st *State) clone() *State {
	n := *st
	n.pc = st.pc[:len(st.pc):len(st.pc)]
	n.facts = st.facts[:len(st.facts):len(st.facts)]
	n.trail = st.trail[:len(st.trail):len(st.trail)]
	n.skolems = st.skolems[:len(st.skolems):len(st.skolems)]
	n.factSet = make(map[string]bool, len(st.factSet))
	for k, v := range st.factSet {
		n.factSet[k] = v
	}
	n.heap = make(map[string]*Term, len(st.heap))
	for k, v := range st.heap {
		n.heap[k] = v
	}
	n.ghosts = make(map[string]Val, len(st.ghosts))
	for k, v := range st.ghosts {
		n.ghosts[k] = v
	}
	n.closures = make(map[string]VFunc, len(st.closures))
	for k, v := range st.closures {
		n.closures[k] = v
	}
	n.frames = make([]*Frame, len(st.frames))
	for i, f := range st.frames {
		nf := *f
		nf.env = make(map[ssa.Value]Val, len(f.env))
		for k, v := range f.env {
			nf.env[k] = v
		}
		nf.cells = make(map[*ssa.Alloc]Val, len(f.cells))
		for k, v := range f.cells {
			nf.cells[k] = v
		}
		nf.defers = f.defers[:len(f.defers):len(f.defers)]
		nf.loops = make(map[*ssa.BasicBlock]*activeLoop, len(f.loops))
		for k, v := range f.loops {
			nf.loops[k] = v
		}
		nf.callOrd = make(map[string]int, len(f.callOrd))
		for k, v := range f.callOrd {
			nf.callOrd[k] = v
		}
		n.frames[i] = &nf
	}
	// written / writtenCells / notes are shared on purpose (collected across forks)
	return &n
}

func (st *State) top() *Frame { return st.frames[len(st.frames)-1] }

func (st *State) assume(t *Term) {
	if t.IsTrue() {
		return
	}
	if t.IsFalse() {
		st.dead = true
	}
	k := t.String()
	for i := len(st.pc) - 1; i >= 0 && i >= len(st.pc)-64; i-- {
		if st.pc[i] == t || st.pc[i].String() == k {
			return
		}
	}
	st.pc = append(st.pc, t)
}

func (st *State) addFact(t *Term) {
	if t.IsTrue() {
		return
	}
	k := t.String()
	if st.factSet[k] {
		return
	}
	st.factSet[k] = true
	st.facts = append(st.facts, t)
}

func (st *State) assumeKey() string {
	var lp, lf *Term
	if n := len(st.pc); n > 0 {
		lp = st.pc[n-1]
	}
	if n := len(st.facts); n > 0 {
		lf = st.facts[n-1]
	}
	_ = lf
	return fmt.Sprintf("%p/%d", lp, len(st.pc))
}

func (st *State) freshSym(hint, sort string) *Term {
	st.x.fresh++
	h := strings.Map(func(r rune) rune {
		if r == '|' || r == '\\' || r == ' ' {
			return '_'
		}
		return r
	}, hint)
	return Sym(fmt.Sprintf("%s!%d", h, st.x.fresh), sort)
}

func (st *State) freshInt(hint string) *Term { return st.freshSym(hint, SInt) }

func (st *State) newRef() *Term {
	st.x.nextRef++
	return IntLit(int64(refBase + st.x.nextRef))
}

func (st *State) note(s string) {
	st.x.notes[s]++
}

func sortedKeys[V any](m map[string]V) []string {
	ks := make([]string, 0, len(m))
	for k := range m {
		ks = append(ks, k)
	}
	sort.Strings(ks)
	return ks
}
