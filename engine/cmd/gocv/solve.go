package main

// Solver back ends: each query is tried on z3-new first; if that does not give a definite
// answer within a short slice of the budget, z3 4.8.12 and cvc5 are raced as well.

import (
	"bytes"
	"context"
	"crypto/sha256"
	"encoding/hex"
	"os"
	"os/exec"
	"path/filepath"
	"strings"
	"sync"
	"sync/atomic"
	"time"
)

type SolveResult struct {
	Status  string // "unsat", "sat", "unknown", "timeout", "error"
	Backend string
	Seconds float64
	Output  string // raw solver output (model on sat)
}

type solverSpec struct {
	name string
	args func(timeoutS int, file string) []string
}

var solvers = []solverSpec{
	{"z3-new", func(t int, f string) []string { return []string{"z3-new", "-T:" + itoa(t), f} }},
	{"cvc5", func(t int, f string) []string {
		return []string{"cvc5", "--tlimit=" + itoa(t*1000), "--produce-models", f}
	}},
	{"z3", func(t int, f string) []string { return []string{"z3", "-T:" + itoa(t), f} }},
}

func itoa(n int) string {
	if n == 0 {
		return "0"
	}
	neg := n < 0
	if neg {
		n = -n
	}
	var b []byte
	for n > 0 {
		b = append([]byte{byte('0' + n%10)}, b...)
		n /= 10
	}
	if neg {
		b = append([]byte{'-'}, b...)
	}
	return string(b)
}

type Solver struct {
	dir      string
	timeoutS int
	mu       sync.Mutex
	cache    map[string]*SolveResult
	avail    map[string]bool
}

// withTimeout: the same solver directory and availability, a different budget, its own cache.
func (s *Solver) withTimeout(t int) *Solver {
	return &Solver{dir: s.dir, timeoutS: t, cache: map[string]*SolveResult{}, avail: s.avail}
}

func NewSolver(dir string, timeoutS int) *Solver {
	s := &Solver{dir: dir, timeoutS: timeoutS, cache: map[string]*SolveResult{}, avail: map[string]bool{}}
	for _, sp := range solvers {
		if _, err := exec.LookPath(sp.name); err == nil {
			s.avail[sp.name] = true
		}
	}
	return s
}

func runOne(ctx context.Context, sp solverSpec, timeoutS int, file string) *SolveResult {
	args := sp.args(timeoutS, file)
	cctx, cancel := context.WithTimeout(ctx, time.Duration(timeoutS+2)*time.Second)
	defer cancel()
	cmd := exec.CommandContext(cctx, args[0], args[1:]...)
	var out bytes.Buffer
	cmd.Stdout = &out
	cmd.Stderr = &out
	t0 := time.Now()
	_ = cmd.Run() // z3 4.8.12 exits 1 on get-value after unsat; parse the first line instead
	res := &SolveResult{Backend: sp.name, Seconds: time.Since(t0).Seconds(), Output: out.String()}
	first := strings.TrimSpace(strings.SplitN(out.String(), "\n", 2)[0])
	switch first {
	case "unsat", "sat", "unknown":
		res.Status = first
	case "timeout":
		res.Status = "timeout"
	default:
		if cctx.Err() != nil {
			res.Status = "timeout"
		} else {
			res.Status = "error"
		}
	}
	return res
}

// Solve decides one query text. Definite answers: unsat / sat.
var rawSeq int64

func (s *Solver) Solve(query string) *SolveResult {
	h := sha256.Sum256([]byte(query))
	key := hex.EncodeToString(h[:12])
	s.mu.Lock()
	if r, ok := s.cache[key]; ok {
		s.mu.Unlock()
		return r
	}
	s.mu.Unlock()
	// the file name is unique per call: two goroutines deciding the same query must not
	// delete each other's input
	file := filepath.Join(s.dir, key+"-"+itoa(int(atomic.AddInt64(&rawSeq, 1)))+".smt2")
	_ = os.WriteFile(file, []byte(query), 0o644)
	defer os.Remove(file)

	quant := strings.Contains(query, "(forall ")
	first := solvers[0]
	var res *SolveResult
	total := 0.0
	if s.avail[first.name] {
		slice := s.timeoutS
		if slice > 3 {
			slice = 3
		}
		res = runOne(context.Background(), first, slice, file)
		total += res.Seconds
		// a "sat" on a query with quantifiers is not a trustworthy model; keep looking for unsat
		if res.Status == "unsat" || (res.Status == "sat" && !quant) {
			return s.remember(key, res)
		}
	}
	// race the rest (and z3-new again with the full budget)
	ctx, cancel := context.WithCancel(context.Background())
	defer cancel()
	ch := make(chan *SolveResult, len(solvers))
	n := 0
	for _, sp := range solvers {
		if !s.avail[sp.name] {
			continue
		}
		if sp.name == first.name && s.timeoutS <= 3 {
			continue
		}
		n++
		go func(sp solverSpec) { ch <- runOne(ctx, sp, s.timeoutS, file) }(sp)
	}
	var best *SolveResult = res
	for i := 0; i < n; i++ {
		r := <-ch
		if r.Status == "unsat" || (r.Status == "sat" && !quant) {
			r.Seconds += total
			return s.remember(key, r)
		}
		if best == nil || (best.Status != "sat" && r.Status == "sat") || best.Status == "error" {
			best = r
		}
	}
	if best == nil {
		best = &SolveResult{Status: "error", Output: "no solver available"}
	}
	if best.Status == "sat" && quant {
		best.Status = "unknown" // model of a quantified query: undecided
	}
	return s.remember(key, best)
}

func (s *Solver) remember(key string, r *SolveResult) *SolveResult {
	s.mu.Lock()
	s.cache[key] = r
	s.mu.Unlock()
	return r
}

// RunRaw runs one solver on a complete script and returns its output.
func (s *Solver) RunRaw(name, query string, timeoutS int) string {
	n := atomic.AddInt64(&rawSeq, 1)
	file := filepath.Join(s.dir, "batch"+itoa(int(n))+".smt2")
	_ = os.WriteFile(file, []byte(query), 0o644)
	defer os.Remove(file)
	ctx, cancel := context.WithTimeout(context.Background(), time.Duration(timeoutS)*time.Second)
	defer cancel()
	cmd := exec.CommandContext(ctx, name, file)
	var out bytes.Buffer
	cmd.Stdout = &out
	cmd.Stderr = &out
	_ = cmd.Run()
	return out.String()
}
