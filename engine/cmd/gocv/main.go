package main

import (
	"flag"
	"fmt"
	"os"
	"path/filepath"
	"runtime/pprof"
	"sort"
	"strings"
)

func usage() {
	fmt.Fprintln(os.Stderr, `usage:
  gocv check  -property Cxx [-tier quick|thorough]     decide one property (MANIFEST interface)
  gocv verify -dir DIR -pkg PATTERN[,PATTERN] [-func SUBSTR] [-v] [-dump]   development: verify contracts of a module
  gocv replay PATH                                     show / re-run a replay file`)
	os.Exit(2)
}

func main() {
	if len(os.Args) < 2 {
		usage()
	}
	switch os.Args[1] {
	case "verify":
		cmdVerify(os.Args[2:])
	case "check":
		cmdCheck(os.Args[2:])
	case "replay":
		cmdReplay(os.Args[2:])
	case "selftest":
		cmdSelftest(os.Args[2:])
	case "bindings":
		cmdBindings(os.Args[2:])
	default:
		usage()
	}
}

func verifRoot() string {
	if r := os.Getenv("VERIF_ROOT"); r != "" {
		return r
	}
	exe, err := os.Executable()
	if err == nil {
		d := filepath.Dir(filepath.Dir(exe))
		if _, err := os.Stat(filepath.Join(d, "MANIFEST.json")); err == nil {
			return d
		}
	}
	return "/verif"
}

func repoRoot() string {
	if r := os.Getenv("VERIF_REPO"); r != "" {
		return r
	}
	return "/repo"
}

// loadSpecs reads libspec and the contract files of the module rooted at moduleDir.
func loadSpecs(e *Engine, moduleDir string) error {
	e.db = NewSpecDB()
	root := verifRoot()
	libs, _ := filepath.Glob(filepath.Join(root, "libspec", "*.spec"))
	sort.Strings(libs)
	for _, f := range libs {
		if err := e.db.LoadFile(f, ""); err != nil {
			return err
		}
	}
	// contract files: /repo/<pkg>/verif_contracts.go, falling back to the master copy
	useMaster := os.Getenv("GOCV_CONTRACTS") == "master"
	for path, p := range e.allPkgs {
		if p.Module == nil || len(p.GoFiles) == 0 {
			continue
		}
		dir := filepath.Dir(p.GoFiles[0])
		if !strings.HasPrefix(dir, repoRoot()+"/") {
			continue
		}
		rel, _ := filepath.Rel(repoRoot(), dir)
		inRepo := filepath.Join(dir, "verif_contracts.go")
		master := filepath.Join(root, "contracts", rel, "verif_contracts.go")
		file := inRepo
		if _, err := os.Stat(inRepo); err != nil || useMaster {
			file = master
		}
		if _, err := os.Stat(file); err != nil {
			continue
		}
		if err := e.db.LoadFile(file, path); err != nil {
			return err
		}
	}
	if os.Getenv("GOCV_NO_REBIND") == "" {
		e.rebindNotes = e.rebindFunctions()
	}
	return nil
}

func cmdVerify(args []string) {
	fs := flag.NewFlagSet("verify", flag.ExitOnError)
	dir := fs.String("dir", "/repo", "module directory")
	pkg := fs.String("pkg", "./...", "package patterns, comma separated")
	only := fs.String("func", "", "only functions whose key contains this")
	verbose := fs.Bool("v", false, "verbose")
	dump := fs.String("dump", "", "write failing queries to this directory")
	timeout := fs.Int("timeout", 10, "solver timeout (s)")
	maxPaths := fs.Int("maxpaths", 20000, "path cap per function")
	cpuprof := fs.String("cpuprofile", "", "write a CPU profile")
	noSolve := fs.Bool("nosolve", false, "generate obligations only; write a few queries to -dump")
	ovl := fs.String("overlay", "", "orig=replacement[,orig=replacement] source overlays")
	fs.Parse(args)
	overlay := map[string][]byte{}
	if *ovl != "" {
		for _, kv := range strings.Split(*ovl, ",") {
			p := strings.SplitN(kv, "=", 2)
			b, err := os.ReadFile(p[1])
			if err != nil {
				fmt.Fprintln(os.Stderr, err)
				os.Exit(2)
			}
			overlay[p[0]] = b
		}
	}
	if *cpuprof != "" {
		pf, _ := os.Create(*cpuprof)
		pprof.StartCPUProfile(pf)
		defer pprof.StopCPUProfile()
	}
	e := NewEngine()
	e.verbose = *verbose
	e.maxPaths = *maxPaths
	if err := e.Load(*dir, overlay, strings.Split(*pkg, ",")...); err != nil {
		fmt.Fprintln(os.Stderr, "load:", err)
		os.Exit(2)
	}
	if err := loadSpecs(e, e.moduleDir); err != nil {
		fmt.Fprintln(os.Stderr, "contracts:", err)
		os.Exit(2)
	}
	tmp, _ := os.MkdirTemp("/var/tmp", "gocv")
	defer os.RemoveAll(tmp)
	solver := NewSolver(tmp, *timeout)
	if *verbose {
		fmt.Println("contracts:", e.db.SortedKeys())
	}
	var results []*FuncResult
	for _, k := range e.db.SortedKeys() {
		con := e.db.Contracts[k]
		if con.Trusted || (*only != "" && !strings.Contains(k, *only)) {
			continue
		}
		fn := e.fnByKey[k]
		if fn == nil || fn.Blocks == nil {
			continue
		}
		r := e.VerifyFunc(fn, con)
		results = append(results, r)
		if r.EngineErr != "" {
			fmt.Printf("ENGINE-ERROR %s: %s\n", k, r.EngineErr)
		}
	}
	if *noSolve {
		for _, r := range results {
			kinds := map[string]int{}
			quant := 0
			for _, o := range r.Obls {
				kinds[o.Kind]++
				if o.Quantified() {
					quant++
				}
			}
			fmt.Printf("== %s: %d paths, %d obligations %v, %d quantified\n", r.Key, r.Paths, len(r.Obls), kinds, quant)
			names := map[string]int{}
			for _, o := range r.Obls {
				if o.Kind == "frame" {
					names[o.Label]++
				}
			}
			for _, k := range sortedKeys(names) {
				fmt.Printf("     frame %s x%d\n", k, names[k])
			}
			if *dump != "" {
				os.MkdirAll(*dump, 0o755)
				for i, o := range r.Obls {
					if i%(len(r.Obls)/6+1) == 0 && o.Res == nil {
						os.WriteFile(filepath.Join(*dump, fmt.Sprintf("sample_%d.smt2", i)), []byte("; "+o.Name+" trail "+o.Trail+"\n"+o.BuildQuery(r.Inputs, false)), 0o644)
					}
				}
			}
		}
		return
	}
	Discharge(solver, results, nil)
	bad := 0
	for _, r := range results {
		fmt.Printf("== %s: %d paths, %d obligations, %.2fs\n", r.Key, r.Paths, len(r.Obls), r.Seconds)
		for _, k := range sortedKeys(r.Unmodelled) {
			fmt.Printf("   unmodelled: %s x%d\n", k, r.Unmodelled[k])
		}
		if *verbose {
			for _, k := range sortedKeys(r.Notes) {
				fmt.Printf("   note: %s x%d\n", k, r.Notes[k])
			}
			for _, k := range sortedKeys(r.Inlined) {
				fmt.Printf("   inlined: %s x%d\n", k, r.Inlined[k])
			}
			for _, k := range sortedKeys(r.Assumed) {
				fmt.Printf("   assumed: %s x%d\n", k, r.Assumed[k])
			}
		}
	}
	for _, g := range GroupObligations(results) {
		status := "ok"
		if !g.OK {
			status = "FAILED"
			bad++
		}
		if *verbose || !g.OK {
			fmt.Printf("%-6s %s # %s (%d paths, %.2fs) %s at %s\n", status, g.Func, g.Name, g.Paths, g.Seconds, g.Where, g.At)
		}
		if *dump != "" && *only != "" && g.OK && g.Kind != "cover" {
			os.MkdirAll(*dump, 0o755)
			for _, r := range results {
				for i, o := range r.Obls {
					if o.Func == g.Func && o.Name == g.Name && o.Query != "" {
						name := strings.NewReplacer("/", "_", "[", "_", "]", "_", "#", "_", "@", "_", " ", "_", "*", "").Replace(g.Func[strings.LastIndex(g.Func, "/")+1:] + "_" + g.Name)
						os.WriteFile(filepath.Join(*dump, fmt.Sprintf("ok_%s_%d.smt2", name, i)), []byte("; trail "+o.Trail+"\n"+o.Query), 0o644)
					}
				}
			}
		}
		if !g.OK {
			for i, o := range g.Failed {
				if i >= 2 {
					break
				}
				st := "?"
				if o.Res != nil {
					st = o.Res.Status + " by " + o.Res.Backend
				}
				fmt.Printf("         %s trail=%s\n", st, o.Trail)
				if *dump != "" {
					os.MkdirAll(*dump, 0o755)
					name := strings.NewReplacer("/", "_", "[", "_", "]", "_", "#", "_", "@", "_", " ", "_", "*", "").Replace(g.Func[strings.LastIndex(g.Func, "/")+1:] + "_" + g.Name)
					os.WriteFile(filepath.Join(*dump, fmt.Sprintf("%s_%d.smt2", name, i)), []byte(o.Query), 0o644)
					if o.Res != nil {
						os.WriteFile(filepath.Join(*dump, fmt.Sprintf("%s_%d.out", name, i)), []byte(o.Res.Output), 0o644)
					}
				}
			}
		}
	}
	fmt.Printf("groups failed: %d\n", bad)
	if *verbose || *only != "" {
		buckets := []float64{0.05, 0.2, 1, 3, 10, 1e9}
		cnt := make([]int, len(buckets))
		tot := 0.0
		type slow struct {
			n  string
			s  float64
			st string
		}
		var slows []slow
		for _, r := range results {
			for _, o := range r.Obls {
				if o.Res == nil {
					continue
				}
				tot += o.Res.Seconds
				for i, b := range buckets {
					if o.Res.Seconds <= b {
						cnt[i]++
						break
					}
				}
				if o.Res.Seconds > 3 {
					slows = append(slows, slow{o.Name, o.Res.Seconds, o.Res.Status + "/" + o.Res.Backend})
				}
			}
		}
		fmt.Printf("solver time total %.0fs; histogram <=0.05:%d <=0.2:%d <=1:%d <=3:%d <=10:%d >10:%d\n", tot, cnt[0], cnt[1], cnt[2], cnt[3], cnt[4], cnt[5])
		for i, s := range slows {
			if i > 12 {
				break
			}
			fmt.Printf("   slow %.1fs %s %s\n", s.s, s.st, s.n)
		}
	}
}
