package main

// Contract files: Gobra-style clauses in //@ comment lines, and the spec expression parser.

import (
	"fmt"
	"math/big"
	"os"
	"path/filepath"
	"sort"
	"strings"
	"unicode"
)

// ---- expressions --------------------------------------------------------------------

type SExpr struct {
	Kind  string // ident int str sel call index slice unary binary forall exists
	Op    string
	Name  string
	Lit   *big.Int
	Args  []*SExpr
	Bound []string
	Hints []*SExpr // exists j hint e1, e2 :: body - witnesses to try when the exists is to be proved
	Src   string
}

type tok struct {
	k string // id int str op eof
	s string
}

func lexSpec(src string) ([]tok, error) {
	var out []tok
	i := 0
	ops := []string{"<==>", "==>", "::", "||", "&&", "==", "!=", "<=", ">=", "<", ">", "+", "-", "*", "/", "%", "!", "(", ")", "[", "]", ".", ",", ":", "&"}
	for i < len(src) {
		c := rune(src[i])
		switch {
		case c == ' ' || c == '\t' || c == '\n':
			i++
		case unicode.IsLetter(c) || c == '_' || c == '$':
			j := i
			for j < len(src) && (unicode.IsLetter(rune(src[j])) || unicode.IsDigit(rune(src[j])) || src[j] == '_' || src[j] == '$') {
				j++
			}
			out = append(out, tok{"id", src[i:j]})
			i = j
		case unicode.IsDigit(c):
			j := i
			for j < len(src) && (unicode.IsDigit(rune(src[j])) || src[j] == 'x' || (src[j] >= 'a' && src[j] <= 'f') || (src[j] >= 'A' && src[j] <= 'F') || src[j] == '_') {
				j++
			}
			out = append(out, tok{"int", strings.ReplaceAll(src[i:j], "_", "")})
			i = j
		case c == '"':
			j := i + 1
			for j < len(src) && src[j] != '"' {
				if src[j] == '\\' {
					j++
				}
				j++
			}
			if j >= len(src) {
				return nil, fmt.Errorf("unterminated string in %q", src)
			}
			out = append(out, tok{"str", src[i+1 : j]})
			i = j + 1
		default:
			found := false
			for _, op := range ops {
				if strings.HasPrefix(src[i:], op) {
					out = append(out, tok{"op", op})
					i += len(op)
					found = true
					break
				}
			}
			if !found {
				return nil, fmt.Errorf("bad character %q in %q", c, src)
			}
		}
	}
	out = append(out, tok{"eof", ""})
	return out, nil
}

type specParser struct {
	toks []tok
	pos  int
	src  string
}

func ParseSpecExpr(src string) (e *SExpr, err error) {
	toks, err := lexSpec(src)
	if err != nil {
		return nil, err
	}
	p := &specParser{toks: toks, src: src}
	defer func() {
		if r := recover(); r != nil {
			err = fmt.Errorf("parse %q: %v", src, r)
		}
	}()
	e = p.expr(0)
	if p.peek().k != "eof" {
		panic(fmt.Sprintf("unexpected %q", p.peek().s))
	}
	e.Src = src
	return e, nil
}

func (p *specParser) peek() tok { return p.toks[p.pos] }
func (p *specParser) next() tok { t := p.toks[p.pos]; p.pos++; return t }
func (p *specParser) expect(s string) {
	if t := p.next(); t.s != s {
		panic(fmt.Sprintf("expected %q, got %q", s, t.s))
	}
}

var binPrec = map[string]int{
	"<==>": 1, "==>": 2, "||": 3, "&&": 4,
	"==": 5, "!=": 5, "<": 5, "<=": 5, ">": 5, ">=": 5,
	"+": 6, "-": 6, "*": 7, "/": 7, "%": 7,
}

func (p *specParser) expr(min int) *SExpr {
	t := p.peek()
	if t.k == "id" && (t.s == "forall" || t.s == "exists") {
		p.next()
		var bound []string
		for {
			bound = append(bound, p.next().s)
			if p.peek().s == "," {
				p.next()
				continue
			}
			break
		}
		var hints []*SExpr
		if h := p.peek(); h.k == "id" && h.s == "hint" {
			p.next()
			for {
				hints = append(hints, p.expr(0))
				if p.peek().s == "," {
					p.next()
					continue
				}
				break
			}
		}
		p.expect("::")
		body := p.expr(0)
		return &SExpr{Kind: t.s, Bound: bound, Hints: hints, Args: []*SExpr{body}}
	}
	lhs := p.unary()
	for {
		op := p.peek()
		prec, ok := binPrec[op.s]
		if op.k != "op" || !ok || prec < min {
			return lhs
		}
		p.next()
		var rhs *SExpr
		if op.s == "==>" {
			rhs = p.expr(prec) // right assoc
		} else {
			rhs = p.expr(prec + 1)
		}
		lhs = &SExpr{Kind: "binary", Op: op.s, Args: []*SExpr{lhs, rhs}}
	}
}

func (p *specParser) unary() *SExpr {
	t := p.peek()
	if t.k == "op" && (t.s == "!" || t.s == "-" || t.s == "&" || t.s == "*") {
		p.next()
		return &SExpr{Kind: "unary", Op: t.s, Args: []*SExpr{p.unary()}}
	}
	return p.postfix(p.primary())
}

func (p *specParser) primary() *SExpr {
	t := p.next()
	switch t.k {
	case "id":
		return &SExpr{Kind: "ident", Name: t.s}
	case "int":
		n, ok := new(big.Int).SetString(t.s, 0)
		if !ok {
			panic("bad int " + t.s)
		}
		return &SExpr{Kind: "int", Lit: n}
	case "str":
		return &SExpr{Kind: "str", Name: t.s}
	case "op":
		if t.s == "(" {
			e := p.expr(0)
			p.expect(")")
			return e
		}
	}
	panic(fmt.Sprintf("unexpected %q", t.s))
}

func (p *specParser) postfix(e *SExpr) *SExpr {
	for {
		t := p.peek()
		if t.k != "op" {
			return e
		}
		switch t.s {
		case ".":
			p.next()
			n := p.next()
			if n.k != "id" && n.s != "*" {
				panic("selector expects identifier")
			}
			e = &SExpr{Kind: "sel", Name: n.s, Args: []*SExpr{e}}
		case "(":
			p.next()
			args := []*SExpr{e}
			for p.peek().s != ")" {
				args = append(args, p.expr(0))
				if p.peek().s == "," {
					p.next()
				}
			}
			p.expect(")")
			e = &SExpr{Kind: "call", Args: args}
		case "[":
			p.next()
			var lo, hi *SExpr
			if p.peek().s != ":" {
				lo = p.expr(0)
			}
			if p.peek().s == ":" {
				p.next()
				if p.peek().s != "]" {
					hi = p.expr(0)
				}
				p.expect("]")
				e = &SExpr{Kind: "slice", Args: []*SExpr{e, lo, hi}}
			} else {
				p.expect("]")
				e = &SExpr{Kind: "index", Args: []*SExpr{e, lo}}
			}
		default:
			return e
		}
	}
}

// ---- contracts ----------------------------------------------------------------------

type Clause struct {
	Label string
	Text  string
	Expr  *SExpr
	Where string // file:line
	// loop clauses: `loop N overall` - a statement over all iterations so far (ghost state read
	// as it is); `loop N invariant` reads ghost state that iterations change per iteration
	Overall bool
}

type ModClause struct {
	Heap    string
	Expr    *SExpr
	Durable bool
	Text    string
}

type Observe struct {
	Name   string
	Callee string
	Ord    int // 0 = any
}

type Contract struct {
	Key       string
	Pkg       string
	Recv      string
	RecvType  string
	FuncName  string
	Params    []string
	Results   []string
	Requires  []*Clause
	Ensures   []*Clause
	Modifies  []*ModClause
	CrashInv  []*Clause
	LoopInv   map[int][]*Clause
	LoopDec   map[int]*Clause
	LoopMod   map[int][]*ModClause
	LoopAfter map[int][]*Clause
	// `at call Callee [label] expr`: proved in the state just before every call of Callee made by
	// the function itself (locals in scope)
	AtCalls   map[string][]*Clause
	Asserts   []*Clause
	Assumes   []*Clause // ensures-clauses taken on trust at call sites, never proved (listed as assumptions)
	Observes  []*Observe
	Fresh     map[string]bool
	SubParams map[string]*Contract // contracts on function-typed parameters
	Trusted   bool
	NoPanic   bool
	Pure      bool
	NoInline  bool
	Inline    bool // spec-level: evaluate by inlining the body
	Props     []string
	File      string
	Line      int
	Used      bool
}

type SpecFunc struct {
	Name     string
	Args     []string // sorts: Int Bool or record names
	Res      string
	Inverse  string
	Injectve bool
}

type Record struct {
	Name   string
	Fields []RecField
}
type RecField struct{ Name, Type string } // Type: Int, Bool, or record name

type ModelField struct {
	Owner string // type key, e.g. "store.Store"
	Name  string
	Dims  int    // number of map dimensions
	Elem  string // Int, Bool, or record name
}

type Pred struct {
	Name   string
	Params []string
	Body   *SExpr
}

// MethodSetCheck: method Name of type Recv (pointer receiver method set) must be declared on
// the type DeclaredOn itself (not promoted from an embedded field).
type MethodSetCheck struct {
	Pkg, Recv, Name, DeclaredOn string
	Props                       []string
	Where                       string
}

// FlagMapCheck: every command-line flag registered in Funcs reaches exactly the leaf field of the
// configuration struct Type that it names (prefix Strip removed), with a matching kind, and
// every leaf field has the same key for the file decoder (mapstructure) and the file writer (yaml).
type FlagMapCheck struct {
	Pkg, Type, Strip string
	Funcs            []string
	Exempt           []string
	Props            []string
	Where            string
}

// NoGlobalsCheck: the functions (and what they call inside the package) touch no package-level
// variable - they are functions of their arguments alone (no shared mutable state).
type NoGlobalsCheck struct {
	Pkg   string
	Funcs []string
	Allow []string
	Props []string
	Where string
}

// RecvOnlyCheck: in package Pkg, receives from the channel field Chan occur only in Funcs.
type RecvOnlyCheck struct {
	Pkg, Chan string
	Funcs     []string
	Props     []string
	Where     string
}

// DistinctCheck: the named package-level string constants have pairwise different values.
type DistinctCheck struct {
	Pkg   string
	Names []string
	Props []string
	Where string
}

type SpecDB struct {
	Distinct   []*DistinctCheck
	RecvOnly   []*RecvOnlyCheck
	MethodSets []*MethodSetCheck
	FlagMaps   []*FlagMapCheck
	NoGlobals  []*NoGlobalsCheck
	Contracts  map[string]*Contract
	Funcs      map[string]*SpecFunc
	Records    map[string]*Record
	Models     map[string]*ModelField // key Owner+"."+Name
	Preds      map[string]*Pred
	Axioms     []*Clause
	Files      []string
}

func NewSpecDB() *SpecDB {
	return &SpecDB{Contracts: map[string]*Contract{}, Funcs: map[string]*SpecFunc{}, Records: map[string]*Record{}, Models: map[string]*ModelField{}, Preds: map[string]*Pred{}}
}

var clauseKW = map[string]bool{"fresh": true, "requires": true, "ensures": true, "modifies": true, "crash_inv": true, "loop": true, "observe": true, "param": true, "trusted": true, "nopanic": true, "pure": true, "noinline": true, "inline": true, "property": true, "assert": true, "assumes": true, "at": true}
var topKW = map[string]bool{"distinct": true, "recvonly": true, "methodset": true, "flagmap": true, "noglobals": true, "func": true, "package": true, "record": true, "spec": true, "model": true, "pred": true, "axiom": true}

// LoadFile parses one contract file. pkgPath is the import path the file's functions live in
// (overridden by `//@ package` lines).
func (db *SpecDB) LoadFile(file, pkgPath string) error {
	data, err := os.ReadFile(file)
	if err != nil {
		return err
	}
	db.Files = append(db.Files, file)
	type item struct {
		text string
		line int
	}
	var items []item
	for i, ln := range strings.Split(string(data), "\n") {
		t := strings.TrimSpace(ln)
		if !strings.HasPrefix(t, "//@") {
			continue
		}
		t = strings.TrimSpace(t[3:])
		if t == "" || strings.HasPrefix(t, "#") {
			continue
		}
		if j := strings.Index(t, " # "); j >= 0 {
			t = strings.TrimSpace(t[:j])
		}
		first := strings.Fields(t)[0]
		if topKW[first] || clauseKW[first] {
			items = append(items, item{t, i + 1})
		} else {
			if len(items) == 0 {
				return fmt.Errorf("%s:%d: continuation without clause", file, i+1)
			}
			items[len(items)-1].text += " " + t
		}
	}
	var cur *Contract
	for _, it := range items {
		where := fmt.Sprintf("%s:%d", filepath.Base(file), it.line)
		fs := strings.Fields(it.text)
		kw := fs[0]
		rest := strings.TrimSpace(it.text[len(kw):])
		fail := func(err error) error { return fmt.Errorf("%s: %v", where, err) }
		switch kw {
		case "package":
			pkgPath = rest
			cur = nil
		case "record":
			// record Name(f1, f2:Rec, ...)
			name, args, _, err := splitHeader(rest)
			if err != nil {
				return fail(err)
			}
			r := &Record{Name: name}
			for _, a := range args {
				parts := strings.SplitN(a, ":", 2)
				ty := "Int"
				if len(parts) == 2 {
					ty = strings.TrimSpace(parts[1])
				}
				r.Fields = append(r.Fields, RecField{strings.TrimSpace(parts[0]), ty})
			}
			db.Records[name] = r
			cur = nil
		case "spec":
			// spec func Name(Sort, ...) Sort [inverse X] [injective]
			rest = strings.TrimSpace(strings.TrimPrefix(rest, "func"))
			name, args, tail, err := splitHeader(rest)
			if err != nil {
				return fail(err)
			}
			tf := strings.Fields(tail)
			if len(tf) == 0 {
				return fail(fmt.Errorf("spec func %s: missing result sort", name))
			}
			sf := &SpecFunc{Name: name, Args: args, Res: tf[0]}
			for i := 1; i < len(tf); i++ {
				switch tf[i] {
				case "inverse":
					if i+1 < len(tf) {
						sf.Inverse = tf[i+1]
						i++
					}
				case "injective":
					sf.Injectve = true
				}
			}
			db.Funcs[name] = sf
			cur = nil
		case "model":
			// model Owner.field map[Int]map[Int]Elem | Elem
			if len(fs) < 3 {
				return fail(fmt.Errorf("model: want `model Owner.field sort`"))
			}
			full := fs[1]
			j := strings.LastIndex(full, ".")
			mf := &ModelField{Owner: full[:j], Name: full[j+1:]}
			s := strings.Join(fs[2:], "")
			for strings.HasPrefix(s, "map[Int]") {
				mf.Dims++
				s = s[len("map[Int]"):]
			}
			mf.Elem = s
			db.Models[mf.Owner+"."+mf.Name] = mf
			cur = nil
		case "pred":
			// pred Name(a, b) := expr
			j := strings.Index(rest, ":=")
			if j < 0 {
				return fail(fmt.Errorf("pred without :="))
			}
			name, args, _, err := splitHeader(strings.TrimSpace(rest[:j]))
			if err != nil {
				return fail(err)
			}
			body, err := ParseSpecExpr(strings.TrimSpace(rest[j+2:]))
			if err != nil {
				return fail(err)
			}
			db.Preds[name] = &Pred{Name: name, Params: args, Body: body}
			cur = nil
		case "distinct":
			dc := &DistinctCheck{Pkg: pkgPath, Where: where}
			mode := "names"
			for _, w := range fs[1:] {
				w = strings.TrimSuffix(w, ",")
				if w == "property" {
					mode = "property"
					continue
				}
				if mode == "names" {
					dc.Names = append(dc.Names, w)
				} else {
					dc.Props = append(dc.Props, w)
				}
			}
			db.Distinct = append(db.Distinct, dc)
			cur = nil
		case "recvonly":
			// recvonly chanField in f1, f2 property Cxx
			rc := &RecvOnlyCheck{Pkg: pkgPath, Where: where}
			mode := ""
			for i, w := range fs[1:] {
				w = strings.TrimSuffix(w, ",")
				switch {
				case i == 0:
					rc.Chan = w
				case w == "in" || w == "property":
					mode = w
				case mode == "in":
					rc.Funcs = append(rc.Funcs, w)
				case mode == "property":
					rc.Props = append(rc.Props, w)
				}
			}
			db.RecvOnly = append(db.RecvOnly, rc)
			cur = nil
		case "noglobals":
			// noglobals T.M, F, ... [allow g1, g2] property Cxx
			ng := &NoGlobalsCheck{Pkg: pkgPath, Where: where}
			mode := "funcs"
			for _, w := range fs[1:] {
				w = strings.TrimSuffix(w, ",")
				switch {
				case w == "allow" || w == "property":
					mode = w
				case mode == "funcs":
					ng.Funcs = append(ng.Funcs, w)
				case mode == "allow":
					ng.Allow = append(ng.Allow, w)
				case mode == "property":
					ng.Props = append(ng.Props, w)
				}
			}
			db.NoGlobals = append(db.NoGlobals, ng)
			cur = nil
		case "flagmap":
			// flagmap Config in AddFlags, AddGlobalFlags strip "rollkit." exempt home, x.y property Cxx
			fm := &FlagMapCheck{Pkg: pkgPath, Where: where}
			mode := ""
			for i, w := range fs[1:] {
				w = strings.Trim(strings.TrimSuffix(w, ","), `"`)
				switch {
				case i == 0:
					fm.Type = w
				case w == "in" || w == "strip" || w == "exempt" || w == "property":
					mode = w
				case mode == "in":
					fm.Funcs = append(fm.Funcs, w)
				case mode == "strip":
					fm.Strip = w
				case mode == "exempt":
					fm.Exempt = append(fm.Exempt, w)
				case mode == "property":
					fm.Props = append(fm.Props, w)
				}
			}
			db.FlagMaps = append(db.FlagMaps, fm)
			cur = nil
		case "methodset":
			// methodset *T Method declared-on T property Cxx ...
			if len(fs) < 5 || fs[3] != "declared-on" {
				return fail(fmt.Errorf("methodset: want `methodset *T Method declared-on T property Cxx`"))
			}
			mc := &MethodSetCheck{Pkg: pkgPath, Recv: strings.TrimPrefix(fs[1], "*"), Name: fs[2], DeclaredOn: fs[4], Where: where}
			for i := 5; i < len(fs); i++ {
				if fs[i] != "property" {
					mc.Props = append(mc.Props, fs[i])
				}
			}
			db.MethodSets = append(db.MethodSets, mc)
			cur = nil
		case "axiom":
			cl, err := parseClause(rest, where)
			if err != nil {
				return fail(err)
			}
			db.Axioms = append(db.Axioms, cl)
			cur = nil
		case "func":
			c, err := parseFuncHeader(rest, pkgPath)
			if err != nil {
				return fail(err)
			}
			c.File, c.Line = file, it.line
			if old, ok := db.Contracts[c.Key]; ok {
				return fail(fmt.Errorf("duplicate contract for %s (also %s:%d)", c.Key, old.File, old.Line))
			}
			db.Contracts[c.Key] = c
			cur = c
		default:
			if cur == nil {
				return fail(fmt.Errorf("clause %q outside a func", kw))
			}
			if err := parseClauseInto(cur, kw, rest, where); err != nil {
				return fail(err)
			}
		}
	}
	return nil
}

// splitHeader parses `Name(a, b) tail`.
func splitHeader(s string) (name string, args []string, tail string, err error) {
	i := strings.Index(s, "(")
	if i < 0 {
		return strings.TrimSpace(s), nil, "", nil
	}
	name = strings.TrimSpace(s[:i])
	depth := 0
	j := i
	for ; j < len(s); j++ {
		if s[j] == '(' {
			depth++
		}
		if s[j] == ')' {
			depth--
			if depth == 0 {
				break
			}
		}
	}
	if j >= len(s) {
		return "", nil, "", fmt.Errorf("unbalanced parentheses in %q", s)
	}
	inner := strings.TrimSpace(s[i+1 : j])
	if inner != "" {
		for _, a := range strings.Split(inner, ",") {
			args = append(args, strings.TrimSpace(a))
		}
	}
	return name, args, strings.TrimSpace(s[j+1:]), nil
}

func stripTypeArgs(s string) string {
	if i := strings.Index(s, "["); i >= 0 {
		return s[:i]
	}
	return s
}

// parseFuncHeader parses `(recv *T) name(params) (results)` or `name(params) (results)` or
// `T.field(params) (results)` (function-typed struct field).
func parseFuncHeader(s, pkgPath string) (*Contract, error) {
	c := &Contract{Pkg: pkgPath, LoopInv: map[int][]*Clause{}, LoopDec: map[int]*Clause{}, LoopMod: map[int][]*ModClause{}, LoopAfter: map[int][]*Clause{}, SubParams: map[string]*Contract{}}
	s = strings.TrimSpace(s)
	if strings.HasPrefix(s, "(") {
		j := strings.Index(s, ")")
		if j < 0 {
			return nil, fmt.Errorf("bad receiver in %q", s)
		}
		rf := strings.Fields(s[1:j])
		if len(rf) == 2 {
			c.Recv = rf[0]
			c.RecvType = stripTypeArgs(strings.TrimPrefix(rf[1], "*"))
		} else if len(rf) == 1 {
			c.RecvType = stripTypeArgs(strings.TrimPrefix(rf[0], "*"))
		} else {
			return nil, fmt.Errorf("bad receiver in %q", s)
		}
		s = strings.TrimSpace(s[j+1:])
	}
	name, params, tail, err := splitHeader(s)
	if err != nil {
		return nil, err
	}
	name = stripTypeArgs(name)
	if c.RecvType == "" {
		if j := strings.LastIndex(name, "."); j >= 0 {
			c.RecvType = name[:j]
			name = name[j+1:]
		}
	}
	c.FuncName = name
	c.Params = params
	if tail != "" {
		_, res, _, err := splitHeader("r" + tail)
		if err != nil {
			return nil, err
		}
		c.Results = res
	}
	if c.RecvType != "" {
		c.Key = pkgPath + "." + c.RecvType + "." + name
	} else {
		c.Key = pkgPath + "." + name
	}
	return c, nil
}

func parseClause(rest, where string) (*Clause, error) {
	cl := &Clause{Where: where}
	rest = strings.TrimSpace(rest)
	if strings.HasPrefix(rest, "[") {
		j := strings.Index(rest, "]")
		cl.Label = rest[1:j]
		rest = strings.TrimSpace(rest[j+1:])
	}
	cl.Text = rest
	e, err := ParseSpecExpr(rest)
	if err != nil {
		return nil, err
	}
	cl.Expr = e
	return cl, nil
}

func parseMods(rest string) ([]*ModClause, error) {
	var out []*ModClause
	depth := 0
	start := 0
	var parts []string
	for i, c := range rest {
		switch c {
		case '(', '[':
			depth++
		case ')', ']':
			depth--
		case ',':
			if depth == 0 {
				parts = append(parts, rest[start:i])
				start = i + 1
			}
		}
	}
	parts = append(parts, rest[start:])
	for _, p := range parts {
		p = strings.TrimSpace(p)
		if p == "" || p == "nothing" {
			continue
		}
		m := &ModClause{Text: p}
		if strings.HasPrefix(p, "durable ") {
			m.Durable = true
			p = strings.TrimSpace(p[len("durable "):])
		}
		if strings.HasPrefix(p, "heap ") {
			// a whole heap array by name, e.g. heap "types.SignedHeader.signatureProvider":
			// that field of any object may change
			m.Heap = strings.Trim(strings.TrimSpace(p[len("heap "):]), "\"")
			out = append(out, m)
			continue
		}
		e, err := ParseSpecExpr(p)
		if err != nil {
			return nil, err
		}
		m.Expr = e
		out = append(out, m)
	}
	return out, nil
}

func parseClauseInto(c *Contract, kw, rest, where string) error {
	switch kw {
	case "fresh":
		if c.Fresh == nil {
			c.Fresh = map[string]bool{}
		}
		for _, n := range strings.Split(rest, ",") {
			c.Fresh[strings.TrimSpace(n)] = true
		}
	case "trusted":
		c.Trusted = true
	case "nopanic":
		c.NoPanic = true
	case "pure":
		c.Pure = true
	case "noinline":
		c.NoInline = true
	case "inline":
		c.Inline = true
	case "property":
		c.Props = append(c.Props, strings.Fields(rest)...)
	case "requires", "ensures", "crash_inv", "assert", "assumes":
		cl, err := parseClause(rest, where)
		if err != nil {
			return err
		}
		if cl.Label == "" {
			cl.Label = fmt.Sprintf("%s%d", kw, len(c.Requires)+len(c.Ensures)+len(c.CrashInv)+1)
		}
		switch kw {
		case "requires":
			c.Requires = append(c.Requires, cl)
		case "ensures":
			c.Ensures = append(c.Ensures, cl)
		case "crash_inv":
			c.CrashInv = append(c.CrashInv, cl)
		case "assert":
			c.Asserts = append(c.Asserts, cl)
		case "assumes":
			c.Assumes = append(c.Assumes, cl)
		}
	case "modifies":
		ms, err := parseMods(rest)
		if err != nil {
			return err
		}
		c.Modifies = append(c.Modifies, ms...)
	case "at":
		fs := strings.Fields(rest)
		if len(fs) < 3 || fs[0] != "call" {
			return fmt.Errorf("at clause: want `at call Callee [label] expr`")
		}
		body := strings.TrimSpace(rest[strings.Index(rest, fs[1])+len(fs[1]):])
		cl, err := parseClause(body, where)
		if err != nil {
			return err
		}
		if c.AtCalls == nil {
			c.AtCalls = map[string][]*Clause{}
		}
		if cl.Label == "" {
			cl.Label = fmt.Sprintf("at%d", len(c.AtCalls[fs[1]])+1)
		}
		c.AtCalls[fs[1]] = append(c.AtCalls[fs[1]], cl)
	case "loop":
		fs := strings.Fields(rest)
		if len(fs) < 3 {
			return fmt.Errorf("loop clause: want `loop N invariant|decreases|modifies ...`")
		}
		var n int
		fmt.Sscanf(fs[0], "%d", &n)
		if n <= 0 {
			return fmt.Errorf("loop ordinal must be >= 1")
		}
		body := strings.TrimSpace(rest[strings.Index(rest, fs[1])+len(fs[1]):])
		switch fs[1] {
		case "invariant":
			cl, err := parseClause(body, where)
			if err != nil {
				return err
			}
			if cl.Label == "" {
				cl.Label = fmt.Sprintf("inv%d", len(c.LoopInv[n])+1)
			}
			c.LoopInv[n] = append(c.LoopInv[n], cl)
		case "overall":
			cl, err := parseClause(body, where)
			if err != nil {
				return err
			}
			if cl.Label == "" {
				cl.Label = fmt.Sprintf("inv%d", len(c.LoopInv[n])+1)
			}
			cl.Overall = true
			c.LoopInv[n] = append(c.LoopInv[n], cl)
		case "after":
			// loop N after [label] expr : checked, then assumed, on leaving the loop
			cl, err := parseClause(body, where)
			if err != nil {
				return err
			}
			if cl.Label == "" {
				cl.Label = fmt.Sprintf("after%d", len(c.LoopAfter[n])+1)
			}
			c.LoopAfter[n] = append(c.LoopAfter[n], cl)
		case "decreases":
			cl, err := parseClause(body, where)
			if err != nil {
				return err
			}
			c.LoopDec[n] = cl
		case "modifies":
			ms, err := parseMods(body)
			if err != nil {
				return err
			}
			c.LoopMod[n] = append(c.LoopMod[n], ms...)
		default:
			return fmt.Errorf("unknown loop clause %q", fs[1])
		}
	case "observe":
		// observe name := call Callee@n
		fs := strings.Fields(rest)
		if len(fs) < 4 || fs[1] != ":=" || fs[2] != "call" {
			return fmt.Errorf("observe: want `observe name := call Callee@n`")
		}
		o := &Observe{Name: fs[0]}
		callee := fs[3]
		if j := strings.Index(callee, "@"); j >= 0 {
			fmt.Sscanf(callee[j+1:], "%d", &o.Ord)
			callee = callee[:j]
		}
		o.Callee = callee
		c.Observes = append(c.Observes, o)
	case "param":
		// param name(args) (results) <clausekw> ...
		name, args, tail, err := splitHeader(rest)
		if err != nil {
			return err
		}
		hasParens := strings.Contains(strings.Fields(rest)[0], "(")
		if !hasParens {
			fs := strings.Fields(rest)
			name = fs[0]
			tail = strings.TrimSpace(rest[len(fs[0]):])
			args = nil
		}
		sub := c.SubParams[name]
		if sub == nil {
			sub = &Contract{Key: c.Key + "$" + name, Pkg: c.Pkg, FuncName: name, LoopInv: map[int][]*Clause{}, LoopDec: map[int]*Clause{}, LoopMod: map[int][]*ModClause{}, LoopAfter: map[int][]*Clause{}, SubParams: map[string]*Contract{}}
			c.SubParams[name] = sub
		}
		if hasParens {
			sub.Params = args
			if strings.HasPrefix(tail, "(") {
				_, res, t2, err := splitHeader("r" + tail)
				if err != nil {
					return err
				}
				sub.Results = res
				tail = t2
			}
		}
		tail = strings.TrimSpace(tail)
		if tail == "" {
			return nil
		}
		k2 := strings.Fields(tail)[0]
		if !clauseKW[k2] {
			return fmt.Errorf("param %s: unknown clause %q", name, k2)
		}
		return parseClauseInto(sub, k2, strings.TrimSpace(tail[len(k2):]), where)
	default:
		return fmt.Errorf("unknown clause keyword %q", kw)
	}
	return nil
}

func (db *SpecDB) SortedKeys() []string {
	var ks []string
	for k := range db.Contracts {
		ks = append(ks, k)
	}
	sort.Strings(ks)
	return ks
}
