package main

// Replay of solver models against the real code (harnesses are registered per function).

func tryReplay(id string, g *OblGroup, run *checkRun) (bool, string) {
	return false, ""
}
