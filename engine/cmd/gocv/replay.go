package main

// Replay of solver models against the real code.
//
// Built for the class of obligations that needs no oracle: `nopanic[...]`. When such an
// obligation fails with a model, and the function under contract is a package-level function
// whose parameters are integers, booleans, byte strings or lists of byte strings, the model is
// asked again for concrete argument values (lengths and leading contents), a Go test that calls
// the real function with them is injected into the real package (`go test -overlay`, nothing is
// written to the repository), and the obligation counts as replayed when the call panics.
// Everything else keeps the line ending `no-failing-input-found`.

import (
	"bytes"
	"context"
	"encoding/json"
	"fmt"
	"go/types"
	"math/big"
	"os"
	"os/exec"
	"path/filepath"
	"strings"
	"time"

	"golang.org/x/tools/go/ssa"
)

const replayMaxBytes = 96    // contents asked from the model per byte string
const replayMaxItems = 6     // byte strings per list
const replayMaxLen = 1 << 16 // longer arguments are not materialised

type replayArg struct {
	kind  string // int, bool, bytes, byteslist
	typ   types.Type
	terms []string // SMT terms whose values are needed, in order
}

func tryReplay(id string, g *OblGroup, run *checkRun) (bool, string) {
	if g.Kind != "nopanic" {
		return false, ""
	}
	fn := run.fns[g.Func]
	var fr *FuncResult
	for _, r := range run.results {
		if r.Key == g.Func {
			fr = r
		}
	}
	if fn == nil || fr == nil || fn.Signature.Recv() != nil || fn.Pkg == nil || fn.TypeParams().Len() > 0 {
		return false, ""
	}
	var o *Obligation
	for _, c := range g.Failed {
		if c.Res != nil && strings.HasPrefix(c.Res.Status, "sat") && c.Query != "" {
			o = c
			break
		}
	}
	if o == nil {
		return false, ""
	}
	q := o.Query
	cut := strings.LastIndex(q, "(check-sat)")
	if cut < 0 {
		return false, ""
	}
	base := q[:cut]
	declared := func(name string) bool { return strings.Contains(base, "(declare-const "+quoteSym(name)+" ") }
	// the flattened parameter terms, in order (see VerifyFunc)
	in := fr.Inputs
	pos := 0
	next := func() (string, bool) {
		if pos >= len(in) {
			return "", false
		}
		t := in[pos].String()
		pos++
		return t, true
	}
	var args []replayArg
	heap := func(name, arr, idx string) string {
		if !declared(name) {
			return "0"
		}
		return fmt.Sprintf("(select (select %s %s) %s)", quoteSym(name), arr, idx)
	}
	for i := 0; i < fn.Signature.Params().Len(); i++ {
		pt := fn.Signature.Params().At(i).Type()
		switch u := pt.Underlying().(type) {
		case *types.Basic:
			t, ok := next()
			if !ok {
				return false, ""
			}
			switch {
			case u.Info()&types.IsInteger != 0:
				args = append(args, replayArg{kind: "int", typ: pt, terms: []string{t}})
			case u.Info()&types.IsBoolean != 0:
				args = append(args, replayArg{kind: "bool", typ: pt, terms: []string{t}})
			default:
				return false, "" // strings and floats are opaque in the encoding
			}
		case *types.Slice:
			arr, ok1 := next()
			off, ok2 := next()
			ln, ok3 := next()
			_, ok4 := next()
			if !(ok1 && ok2 && ok3 && ok4) {
				return false, ""
			}
			if b, isB := u.Elem().Underlying().(*types.Basic); isB && b.Kind() == types.Uint8 {
				a := replayArg{kind: "bytes", typ: pt, terms: []string{arr, ln}}
				for k := 0; k < replayMaxBytes; k++ {
					a.terms = append(a.terms, heap("H0:[]uint8", arr, fmt.Sprintf("(+ %s %d)", off, k)))
				}
				args = append(args, a)
				continue
			}
			if inner, isS := u.Elem().Underlying().(*types.Slice); isS {
				if b, isB := inner.Elem().Underlying().(*types.Basic); isB && b.Kind() == types.Uint8 {
					a := replayArg{kind: "byteslist", typ: pt, terms: []string{arr, ln}}
					for j := 0; j < replayMaxItems; j++ {
						idx := fmt.Sprintf("(+ %s %d)", off, j)
						ia := heap("H0:[][]uint8#arr", arr, idx)
						io := heap("H0:[][]uint8#off", arr, idx)
						il := heap("H0:[][]uint8#len", arr, idx)
						a.terms = append(a.terms, ia, il)
						for k := 0; k < replayMaxBytes; k++ {
							a.terms = append(a.terms, heap("H0:[]uint8", ia, fmt.Sprintf("(+ %s %d)", io, k)))
						}
					}
					args = append(args, a)
					continue
				}
			}
			return false, ""
		default:
			return false, ""
		}
	}
	var all []string
	for _, a := range args {
		all = append(all, a.terms...)
	}
	if len(all) == 0 {
		return false, ""
	}
	ext := base + "(check-sat)\n(get-value (" + strings.Join(all, "\n ") + "))\n"
	tmp, err := os.MkdirTemp("/var/tmp", "gocvreplay")
	if err != nil {
		return false, ""
	}
	defer os.RemoveAll(tmp)
	qf := filepath.Join(tmp, "q.smt2")
	os.WriteFile(qf, []byte(ext), 0o644)
	ctx, cancel := context.WithTimeout(context.Background(), 20*time.Second)
	defer cancel()
	out, _ := exec.CommandContext(ctx, "z3-new", qf).CombinedOutput()
	lines := strings.SplitN(strings.TrimSpace(string(out)), "\n", 2)
	if len(lines) < 2 || strings.TrimSpace(lines[0]) != "sat" {
		return false, "model could not be re-established for a replay (" + strings.TrimSpace(lines[0]) + ")"
	}
	vals, ok := parseGetValue(lines[1], len(all))
	if !ok {
		return false, "model values could not be parsed for a replay"
	}
	// Go literals for the arguments
	vi := 0
	take := func() *big.Int { v := vals[vi]; vi++; return v }
	byteLit := func(n int, cont []*big.Int) string {
		var b strings.Builder
		b.WriteString("[]byte{")
		for k := 0; k < n; k++ {
			v := int64(0)
			if k < len(cont) && cont[k] != nil && cont[k].IsInt64() {
				v = cont[k].Int64() & 0xff
			}
			if k > 0 {
				b.WriteString(", ")
			}
			fmt.Fprintf(&b, "%d", v)
		}
		b.WriteString("}")
		return b.String()
	}
	var lits []string
	qual := types.RelativeTo(fn.Pkg.Pkg)
	for _, a := range args {
		switch a.kind {
		case "int":
			v := take()
			if v == nil {
				return false, "model without a value for an argument"
			}
			lits = append(lits, fmt.Sprintf("%s(%s)", types.TypeString(a.typ, qual), v.String()))
		case "bool":
			v := take()
			lits = append(lits, fmt.Sprintf("%v", v != nil && v.Sign() != 0))
		case "bytes":
			arr, ln := take(), take()
			cont := vals[vi : vi+replayMaxBytes]
			vi += replayMaxBytes
			if arr == nil || ln == nil || !ln.IsInt64() || ln.Int64() < 0 || ln.Int64() > replayMaxLen {
				return false, "the model's argument is too large to materialise"
			}
			if arr.Sign() == 0 {
				lits = append(lits, "nil")
			} else {
				lits = append(lits, byteLit(int(ln.Int64()), cont))
			}
		case "byteslist":
			arr, ln := take(), take()
			if arr == nil || ln == nil || !ln.IsInt64() || ln.Int64() < 0 || ln.Int64() > replayMaxItems {
				return false, "the model's argument is too large to materialise"
			}
			var items []string
			for j := 0; j < replayMaxItems; j++ {
				ia, il := take(), take()
				cont := vals[vi : vi+replayMaxBytes]
				vi += replayMaxBytes
				if int64(j) >= ln.Int64() {
					continue
				}
				if il == nil || !il.IsInt64() || il.Int64() < 0 || il.Int64() > replayMaxLen {
					return false, "the model's argument is too large to materialise"
				}
				if ia == nil || ia.Sign() == 0 {
					items = append(items, "nil")
				} else {
					items = append(items, byteLit(int(il.Int64()), cont))
				}
			}
			if arr.Sign() == 0 {
				lits = append(lits, "nil")
			} else {
				lits = append(lits, "[][]byte{"+strings.Join(items, ", ")+"}")
			}
		}
	}
	call := fn.Name() + "(" + strings.Join(lits, ", ") + ")"
	src := fmt.Sprintf(`package %s

import "testing"

// generated by gocv from the solver's model for %s # %s
func TestVerifReplay(t *testing.T) {
	defer func() {
		r := recover()
		if r == nil {
			t.Fatalf("REPLAY: the call returned normally")
		}
		t.Logf("REPLAY-PANIC: %%v", r)
	}()
	%s
}
`, fn.Pkg.Pkg.Name(), shortFunc(g.Func), g.Name, call)
	// where the package lives
	dir := ""
	if p := fn.Prog.Fset.Position(fn.Pos()); p.IsValid() {
		dir = filepath.Dir(p.Filename)
	}
	if dir == "" {
		return false, ""
	}
	testFile := filepath.Join(tmp, "replay_test.go")
	os.WriteFile(testFile, []byte(src), 0o644)
	ov, _ := json.Marshal(map[string]any{"Replace": map[string]string{filepath.Join(dir, "zz_verif_replay_test.go"): testFile}})
	ovFile := filepath.Join(tmp, "ov.json")
	os.WriteFile(ovFile, ov, 0o644)
	ctx2, cancel2 := context.WithTimeout(context.Background(), 180*time.Second)
	defer cancel2()
	cmd := exec.CommandContext(ctx2, "go", "test", "-overlay", ovFile, "-vet=off", "-count=1", "-timeout", "60s", "-run", "^TestVerifReplay$", "-v", ".")
	cmd.Dir = dir
	cmd.Env = append(os.Environ(), "GOFLAGS=-mod=mod", "GOPROXY=off")
	var buf bytes.Buffer
	cmd.Stdout, cmd.Stderr = &buf, &buf
	runErr := cmd.Run()
	outS := buf.String()
	reproduced := runErr == nil && strings.Contains(outS, "REPLAY-PANIC")
	text := "generated test (injected into " + dir + " with go test -overlay):\n" + src + "\noutput:\n" + tailLines(outS, 12) + "\n"
	if reproduced {
		text += "the real function panics on the solver's input\n"
	} else {
		text += "the solver's input did not make the real function panic (the model belongs to the abstraction; the obligation still fails)\n"
	}
	return reproduced, text
}

// parseGetValue reads n values from a z3 (get-value ...) answer: ((term value) (term value) ...).
func parseGetValue(s string, n int) ([]*big.Int, bool) {
	// tokenise
	var toks []string
	cur := ""
	inBar := false
	for _, r := range s {
		switch {
		case inBar:
			cur += string(r)
			if r == '|' {
				inBar = false
			}
		case r == '|':
			cur += string(r)
			inBar = true
		case r == '(' || r == ')':
			if cur != "" {
				toks = append(toks, cur)
				cur = ""
			}
			toks = append(toks, string(r))
		case r == ' ' || r == '\n' || r == '\t' || r == '\r':
			if cur != "" {
				toks = append(toks, cur)
				cur = ""
			}
		default:
			cur += string(r)
		}
	}
	if cur != "" {
		toks = append(toks, cur)
	}
	p := 0
	var skip func() bool // skips one s-expression
	skip = func() bool {
		if p >= len(toks) {
			return false
		}
		if toks[p] != "(" {
			p++
			return true
		}
		p++
		for p < len(toks) && toks[p] != ")" {
			if !skip() {
				return false
			}
		}
		p++
		return true
	}
	value := func() (*big.Int, bool) {
		if p >= len(toks) {
			return nil, false
		}
		switch toks[p] {
		case "true":
			p++
			return big.NewInt(1), true
		case "false":
			p++
			return big.NewInt(0), true
		case "(":
			// (- n)
			if p+3 < len(toks) && toks[p+1] == "-" && toks[p+3] == ")" {
				v, ok := new(big.Int).SetString(toks[p+2], 10)
				p += 4
				if !ok {
					return nil, true
				}
				return v.Neg(v), true
			}
			if !skip() {
				return nil, false
			}
			return nil, true
		}
		v, ok := new(big.Int).SetString(toks[p], 10)
		p++
		if !ok {
			return nil, true
		}
		return v, true
	}
	if p >= len(toks) || toks[p] != "(" {
		return nil, false
	}
	p++
	var out []*big.Int
	for len(out) < n {
		if p >= len(toks) || toks[p] != "(" {
			return nil, false
		}
		p++
		if !skip() { // the term
			return nil, false
		}
		v, ok := value()
		if !ok {
			return nil, false
		}
		out = append(out, v)
		if p >= len(toks) || toks[p] != ")" {
			return nil, false
		}
		p++
	}
	return out, true
}

var _ = ssa.NaiveForm
