package main

// Evaluation of spec expressions over a symbolic state.

import (
	"fmt"
	"go/constant"
	"go/types"
	"math/big"
	"regexp"
	"strings"

	"golang.org/x/tools/go/ssa"
)

type VNil struct{}

// VModel is a (possibly multi-dimensional) model array value.
type VModel struct {
	T    *Term
	Dims int
	Elem string // Int, Bool or a record name
}

type SpecEnv struct {
	x           *Explorer
	st          *State
	vars        map[string]Val
	oldVars     map[string]Val
	oldHeap     map[string]*Term
	frame       *Frame
	con         *Contract
	pkg         string
	bound       map[string]*Term
	iterHeap    map[string]*Term // state at the start of the current loop iteration, for iter(e)
	iterCells   map[*ssa.Alloc]Val
	inIter      bool
	goal        bool // evaluating something to be proved (skolemise positive foralls)
	neg         bool // current polarity is negative
	inOld       bool
	entryParams bool    // postconditions: a parameter name denotes the value the caller passed, even if the body reassigned it
	callK       int64   // at a call site: references above this were allocated by the callee
	univ        []*Term // enclosing bound variables that stay quantified (skolems below them are functions)
	// per-iteration view of ghost state (loop invariants): ghosts whose base is in viewBases are
	// counted from the head of the iteration, whose ghost state is viewHead
	viewBases map[string]bool
	viewHead  map[string]Val
}

// ghost reads a ghost variable, through the per-iteration view when one is set.
func (env *SpecEnv) ghost(key string) (Val, bool) {
	v, ok := env.st.ghosts[key]
	if env.viewBases == nil {
		return v, ok
	}
	base := ghostBase(key)
	if !env.viewBases[base] {
		return v, ok
	}
	cntKey, flagKey := ghostKeys(base)
	if key != cntKey && key != flagKey {
		return v, ok
	}
	cnt := func(m map[string]Val) *Term {
		if c, ok := m[cntKey].(VInt); ok && c.T != nil {
			return c.T
		}
		return IntLit(0)
	}
	now, head := cnt(env.st.ghosts), cnt(env.viewHead)
	if key == cntKey {
		if now == head {
			return VInt{T: IntLit(0)}, true
		}
		return VInt{T: Sub(now, head)}, true
	}
	if now == head {
		return VInt{T: tFalse}, true
	}
	return VInt{T: Gt(now, head)}, true
}

// soleRecvChannel: channels are named after the expression they are received from (`results.Next()`
// is "Next"). When nothing was received under the name a clause uses and the path has received
// from exactly one channel by `<-`/range at all, that one is meant (the expression was rewritten).
func (env *SpecEnv) soleRecvChannel(name string) string {
	if _, ok := env.st.ghosts["recv:"+name+".count"]; ok {
		return ""
	}
	found := ""
	for k := range env.st.ghosts {
		if strings.HasPrefix(k, "recv:") && strings.HasSuffix(k, ".ok") {
			n := strings.TrimSuffix(strings.TrimPrefix(k, "recv:"), ".ok")
			if found != "" && found != n {
				return ""
			}
			found = n
		}
	}
	return found
}

// ghostKeys: the counter and (for observers) the was-called flag of a ghost base.
func ghostKeys(base string) (cnt, flag string) {
	if strings.HasPrefix(base, "obs:") {
		return base[4:] + ".count", base[4:]
	}
	return base + ".count", ""
}

func (x *Explorer) specEnv(st *State, f *Frame, con *Contract) *SpecEnv {
	env := &SpecEnv{x: x, st: st, vars: map[string]Val{}, frame: f, con: con, oldHeap: st.oldHeap}
	if con != nil {
		env.pkg = con.Pkg
	}
	env.oldVars = f.paramVal
	return env
}

func (env *SpecEnv) fail(format string, a ...any) {
	where := ""
	if env.con != nil {
		where = env.con.Key + ": "
	}
	env.x.fail("spec: "+where+format, a...)
}

func (env *SpecEnv) bindResults(con *Contract, sig *types.Signature, vals []Val) {
	for i, v := range vals {
		env.vars[fmt.Sprintf("r%d", i)] = v
		if i < len(con.Results) && con.Results[i] != "_" {
			env.vars[con.Results[i]] = v
		}
	}
	if len(vals) == 1 {
		env.vars["result"] = vals[0]
	}
}

func (env *SpecEnv) evalBool(e *SExpr) *Term {
	v := env.ev(e)
	t, ok := v.(VInt)
	if !ok || t.T.Sort != SBool {
		env.fail("%q is not a formula (%T)", e.Src, v)
	}
	return t.T
}

// tryBool evaluates a clause; a clause that no longer binds to the code (an identifier it names
// is gone, a field was removed, ...) yields (nil, reason) instead of aborting the function.
func (env *SpecEnv) tryBool(e *SExpr) (t *Term, unbound string) {
	defer func() {
		if r := recover(); r != nil {
			if ee, ok := r.(engineError); ok && strings.HasPrefix(ee.msg, "spec: ") {
				t, unbound = nil, ee.msg
				return
			}
			panic(r)
		}
	}()
	return env.evalBool(e), ""
}

// goalOf evaluates a clause that is to be proved; an unbound clause becomes a failed obligation.
func (x *Explorer) goalOf(st *State, env *SpecEnv, cl *Clause, kind, site string) (*Term, bool) {
	env.goal = true
	g, why := env.tryBool(cl.Expr)
	if g != nil {
		return g, true
	}
	if !st.dry && !st.dead {
		if (strings.HasPrefix(kind, "inv-") || kind == "after-loop") && x.staleProofAid(st, env, cl, why) {
			// An invariant that speaks about program state only (no call history) is an aid to
			// the proof of the postconditions, not part of what is claimed. If it names a
			// variable that existed when the contracts were written and that the function no
			// longer has (a flag replaced by an early return, an alias removed), it is set
			// aside: should the proof need it, the obligations that depended on it fail.
			st.note("invariant [" + cl.Label + "] of " + x.fnKey + " names a variable the function no longer has and says nothing about call history: set aside (" + why + ")")
			return nil, false
		}
		name := kind + "[" + cl.Label + "]"
		if site != "" {
			name += "@" + site
		}
		x.obls = append(x.obls, &Obligation{Func: x.fnKey, Name: name, Kind: kind, Label: cl.Label, Where: cl.Where, Goal: tFalse,
			Trail: strings.Join(st.trail, ";"), Res: &SolveResult{Status: "unbound", Backend: "binder", Output: "the clause no longer binds to the code: " + why},
			Query: "; " + why})
	}
	return nil, false
}

var unknownIdentRe = regexp.MustCompile(`unknown identifier "([A-Za-z_][A-Za-z_0-9]*)"`)

// staleProofAid: the clause failed to bind because it names a local variable that the baseline
// knows and the function no longer has, and it does not read any ghost state.
func (x *Explorer) staleProofAid(st *State, env *SpecEnv, cl *Clause, why string) bool {
	m := unknownIdentRe.FindStringSubmatch(why)
	if m == nil || env.frame == nil || env.frame.fn == nil || x.eng.bindBase == nil {
		return false
	}
	base := x.eng.bindBase[x.eng.fnKey(env.frame.fn)]
	if base == nil {
		return false
	}
	was := false
	for _, l := range base.Locals {
		if l.Name == m[1] {
			was = true
		}
	}
	if !was {
		return false
	}
	for _, l := range localsOf(env.frame.fn) {
		if l.Name == m[1] {
			return false
		}
	}
	return !x.mentionsGhost(st, cl.Expr)
}

// mentionsGhost: does the expression read observer records or channel counters at all?
func (x *Explorer) mentionsGhost(st *State, root *SExpr) bool {
	all := map[string]bool{}
	if len(st.frames) > 0 && st.frames[0].contract != nil {
		for _, o := range st.frames[0].contract.Observes {
			all["obs:"+o.Name] = true
		}
	}
	found := false
	var walk func(e *SExpr)
	walk = func(e *SExpr) {
		if e == nil || found {
			return
		}
		if e.Kind == "call" && len(e.Args) > 0 && e.Args[0].Kind == "ident" {
			switch e.Args[0].Name {
			case "recvCount", "recvOpen", "sendCount", "sent", "closeCount", "now":
				found = true
				return
			}
		}
		for _, a := range e.Args {
			walk(a)
		}
		for _, h := range e.Hints {
			walk(h)
		}
	}
	walk(root)
	return found || x.readsLoopGhost(st, root, all)
}

// assumeClause assumes a clause; an unbound clause is skipped (a weaker assumption is sound).
func (x *Explorer) assumeClause(st *State, env *SpecEnv, cl *Clause) {
	env.goal = false
	if g, _ := env.tryBool(cl.Expr); g != nil {
		st.assume(g)
	}
}

func (env *SpecEnv) evalInt(e *SExpr) *Term {
	return env.scalar(env.ev(e), e)
}

// scalar coerces a value to a single term.
func (env *SpecEnv) scalar(v Val, e *SExpr) *Term {
	switch t := v.(type) {
	case VInt:
		return t.T
	case VPtr:
		if t.Alloc == nil && len(t.Path) == 0 {
			return t.Ref
		}
	case VIface:
		return t.Val
	case VMap:
		return t.Ref
	case VSlice:
		if isByteSlice(types.NewSlice(t.Elem)) {
			return env.st.bval(t)
		}
	case VNil:
		return IntLit(0)
	case VModel:
		return t.T
	case VFunc:
		if t.ID != nil {
			return t.ID
		}
		if t.Fn != nil {
			return IntLit(env.st.eng.fnID(t.Fn))
		}
	}
	env.fail("cannot use %T as a scalar in %v", v, exprStr(e))
	return nil
}

func exprStr(e *SExpr) string {
	if e == nil {
		return ""
	}
	if e.Src != "" {
		return e.Src
	}
	switch e.Kind {
	case "ident":
		return e.Name
	case "sel":
		return exprStr(e.Args[0]) + "." + e.Name
	case "call":
		return exprStr(e.Args[0]) + "(...)"
	}
	return e.Kind
}

func (env *SpecEnv) withHeap(h map[string]*Term, f func()) {
	saved := env.st.heap
	savedW := env.st.written
	env.st.heap = h
	env.st.written = nil
	defer func() { env.st.heap = saved; env.st.written = savedW }()
	f()
}

func (env *SpecEnv) lookupLocal(name string) (Val, bool) {
	if v, ok := env.lookupLocal1(name); ok {
		return v, true
	}
	// the variable may have been renamed since the contract was written
	if env.frame != nil && env.frame.fn != nil {
		e := env.st.eng
		if alt := e.rebindLocal(env.frame.fn, name); alt != "" && alt != name {
			if v, ok := env.lookupLocal1(alt); ok {
				env.st.note("local " + name + " of " + e.fnKey(env.frame.fn) + " no longer exists: clauses naming it are read with " + alt + " (same type, new name)")
				return v, true
			}
		}
		// a range loop rewritten as an index loop or the other way round: the hidden index of a
		// range loop (`rangeindex`: the element just handled, -1 before the first) is the loop
		// counter minus one
		if name == "rangeindex" {
			if iv := e.newCounter(env.frame.fn); iv != "" {
				if v, ok := env.lookupLocal1(iv); ok {
					if vi, isInt := v.(VInt); isInt {
						env.st.note("range loop of " + e.fnKey(env.frame.fn) + " is now an index loop: rangeindex is read as " + iv + " - 1")
						return VInt{T: Sub(vi.T, IntLit(1))}, true
					}
				}
			}
		} else if e.wasCounter(env.frame.fn, name) {
			if v, ok := env.lookupLocal1("rangeindex"); ok {
				if vi, isInt := v.(VInt); isInt {
					env.st.note("index loop of " + e.fnKey(env.frame.fn) + " is now a range loop: " + name + " is read as rangeindex + 1")
					return VInt{T: Add(vi.T, IntLit(1))}, true
				}
			}
		}
	}
	return nil, false
}

func (env *SpecEnv) lookupLocal1(name string) (Val, bool) {
	f := env.frame
	if f == nil {
		return nil, false
	}
	var best *ssa.Alloc
	for a := range f.cells {
		if a.Comment == name && (best == nil || a.Pos() > best.Pos() || (a.Pos() == best.Pos() && f.cellOrd[a] > f.cellOrd[best])) {
			best = a
		}
	}
	if best != nil {
		if env.inIter && env.iterCells != nil {
			if v, ok := env.iterCells[best]; ok {
				return v, true
			}
		}
		return f.cells[best], true
	}
	// escaping locals live on the heap
	for v, val := range f.env {
		if a, ok := v.(*ssa.Alloc); ok && a.Heap && a.Comment == name {
			if best == nil || a.Pos() > best.Pos() {
				best = a
				_ = val
			}
		}
	}
	if best != nil {
		return env.st.load(f.env[best].(VPtr)), true
	}
	return nil, false
}

func (env *SpecEnv) importPath(name string) string {
	p := env.st.eng.allPkgs[env.pkg]
	if p == nil {
		return ""
	}
	for _, file := range p.Syntax {
		for _, imp := range file.Imports {
			path := strings.Trim(imp.Path.Value, `"`)
			if imp.Name != nil {
				if imp.Name.Name == name {
					return path
				}
				continue
			}
			if ip := p.Imports[path]; ip != nil && ip.Name == name {
				return path
			}
		}
	}
	return ""
}

func (env *SpecEnv) pkgMember(pkgPath, name string) (Val, bool) {
	e := env.st.eng
	p := e.allPkgs[pkgPath]
	if p == nil || p.Types == nil {
		return nil, false
	}
	obj := p.Types.Scope().Lookup(name)
	switch o := obj.(type) {
	case *types.Const:
		return env.constVal(o.Val(), o.Type()), true
	case *types.Var:
		sp := e.prog.Package(p.Types)
		if sp == nil {
			return nil, false
		}
		g, ok := sp.Members[name].(*ssa.Global)
		if !ok {
			return nil, false
		}
		ptr := VPtr{Ref: IntLit(e.globalRef(g)), Root: g.Type().(*types.Pointer).Elem()}
		return env.x.globalLoad(env.st, g, env.st.load(ptr)), true
	}
	return nil, false
}

func (env *SpecEnv) constVal(v constant.Value, t types.Type) Val {
	switch v.Kind() {
	case constant.Bool:
		return VInt{T: BoolLit(constant.BoolVal(v))}
	case constant.Int:
		if bi, ok := constant.Val(v).(*big.Int); ok {
			return VInt{T: BigLit(bi)}
		}
		i, _ := constant.Int64Val(v)
		return VInt{T: IntLit(i)}
	case constant.String:
		s := constant.StringVal(v)
		id := IntLit(env.st.eng.strID(s))
		env.st.addFact(Eq(UF("strlen", SInt, id), IntLit(int64(len(s)))))
		return VInt{T: id}
	}
	return VInt{T: UF("const:"+v.ExactString(), SInt)}
}

func (env *SpecEnv) ev(e *SExpr) Val {
	switch e.Kind {
	case "int":
		return VInt{T: BigLit(e.Lit)}
	case "str":
		id := IntLit(env.st.eng.strID(e.Name))
		env.st.addFact(Eq(UF("strlen", SInt, id), IntLit(int64(len(e.Name)))))
		return VInt{T: id}
	case "ident":
		return env.ident(e)
	case "sel":
		return env.sel(e)
	case "index":
		return env.index(e)
	case "slice":
		return env.sliceExpr(e)
	case "call":
		return env.call(e)
	case "unary":
		return env.unary(e)
	case "binary":
		return env.binary(e)
	case "forall", "exists":
		return env.quant(e)
	}
	env.fail("cannot evaluate %s", e.Kind)
	return nil
}

func (env *SpecEnv) ident(e *SExpr) Val {
	n := e.Name
	if t, ok := env.bound[n]; ok {
		return VInt{T: t}
	}
	switch n {
	case "nil":
		return VNil{}
	case "true":
		return VInt{T: tTrue}
	case "false":
		return VInt{T: tFalse}
	}
	if env.inOld {
		if v, ok := env.oldVars[n]; ok {
			return v
		}
	}
	if v, ok := env.vars[n]; ok {
		return v
	}
	if v, ok := env.ghost(n); ok {
		return v
	}
	if env.entryParams {
		if v, ok := env.oldVars[n]; ok {
			return v
		}
	}
	if !env.inOld {
		if v, ok := env.lookupLocal(n); ok {
			return v
		}
	}
	if v, ok := env.oldVars[n]; ok {
		return v
	}
	for _, o := range env.observers() {
		if o.Name == n {
			return VInt{T: tFalse} // observer that has not fired on this path
		}
	}
	// captured variables of a closure under contract
	if f := env.st.frames[0]; f != nil {
		for i, fv := range f.fn.FreeVars {
			if fv.Name() == n && i < len(f.free) {
				if p, ok := f.free[i].(VPtr); ok {
					return env.st.load(p)
				}
			}
		}
	}
	if v, ok := env.pkgMember(env.pkg, n); ok {
		return v
	}
	// a local of the function that is declared later on this path (e.g. a loop-body variable
	// named in an invariant evaluated on loop entry): not live yet, arbitrary
	if env.frame != nil {
		for _, b := range env.frame.fn.Blocks {
			for _, ins := range b.Instrs {
				if a, ok := ins.(*ssa.Alloc); ok && a.Comment == n {
					return env.st.freshVal(allocElem(a), "notlive_"+n)
				}
			}
		}
	}
	env.fail("unknown identifier %q", n)
	return nil
}

func (env *SpecEnv) observers() []*Observe {
	if len(env.st.frames) > 0 && env.st.frames[0].contract != nil {
		return env.st.frames[0].contract.Observes
	}
	return nil
}

func (env *SpecEnv) recField(rec string, name string, x *Term) (Val, bool) {
	r := env.st.eng.db.Records[rec]
	if r == nil {
		return nil, false
	}
	for _, f := range r.Fields {
		if f.Name == name {
			sort := SInt
			recT := ""
			if f.Type == "Bool" {
				sort = SBool
			} else if f.Type != "Int" {
				recT = f.Type
			}
			return VInt{T: UF(rec+"_"+name, sort, x), Rec: recT}, true
		}
	}
	return nil, false
}

func (env *SpecEnv) modelField(owner Val, name string) (Val, bool) {
	db := env.st.eng.db
	var cands []*ModelField
	for _, m := range db.Models {
		if m.Name == name {
			cands = append(cands, m)
		}
	}
	if len(cands) == 0 {
		return nil, false
	}
	var mf *ModelField
	if len(cands) == 1 {
		mf = cands[0]
	} else {
		var tk string
		switch o := owner.(type) {
		case VPtr:
			tk = env.st.eng.typeKey(env.st.eng.pointee(o))
		case VIface:
			if o.DynT != nil {
				tk = env.st.eng.typeKey(o.DynT)
			}
		}
		for _, c := range cands {
			if c.Owner == tk || strings.HasSuffix(tk, "."+c.Owner) || strings.HasSuffix(c.Owner, tk) && tk != "" {
				mf = c
			}
		}
		if mf == nil {
			env.fail("ambiguous model field %q", name)
		}
	}
	var ref *Term
	switch o := owner.(type) {
	case VIface:
		ref = o.Val
	case VPtr:
		if o.Alloc != nil || len(o.Path) != 0 {
			env.fail("model field %s on interior pointer", name)
		}
		ref = o.Ref
	case VInt:
		ref = o.T
	default:
		return nil, false
	}
	es := SInt
	if mf.Elem == "Bool" {
		es = SBool
	}
	sort := ArrSort(nestedSort(es, mf.Dims))
	arr := env.st.heapGet("model:"+mf.Owner+"."+mf.Name, sort)
	t := Select(arr, ref)
	if mf.Dims == 0 {
		rec := ""
		if mf.Elem == "U64" {
			// a height-like counter: a uint64 that never reaches 2^64-1 (assumption)
			lim := Sub(Pow2(64), IntLit(1))
			env.st.addFact(And(Ge(t, IntLit(0)), Lt(t, lim)))
		} else if mf.Elem != "Int" && mf.Elem != "Bool" {
			rec = mf.Elem
		}
		return VInt{T: t, Rec: rec}, true
	}
	return VModel{T: t, Dims: mf.Dims, Elem: mf.Elem}, true
}

func (env *SpecEnv) goField(p VPtr, name string) (VPtr, bool) {
	t := env.st.eng.pointee(p)
	obj, index, _ := types.LookupFieldOrMethod(t, true, nil, name)
	if obj == nil {
		// unexported field of another package: search by name
		if st, ok := t.Underlying().(*types.Struct); ok {
			for i := 0; i < st.NumFields(); i++ {
				if st.Field(i).Name() == name {
					np := p
					np.Path = append(append([]PathEl{}, p.Path...), PathEl{Field: i})
					return np, true
				}
			}
			// promoted through embedded fields
			for i := 0; i < st.NumFields(); i++ {
				if st.Field(i).Embedded() {
					np := p
					np.Path = append(append([]PathEl{}, p.Path...), PathEl{Field: i})
					if _, isPtr := st.Field(i).Type().Underlying().(*types.Pointer); isPtr {
						continue
					}
					if r, ok := env.goField(np, name); ok {
						return r, true
					}
				}
			}
		}
		return p, false
	}
	if _, ok := obj.(*types.Var); !ok {
		return p, false
	}
	np := p
	np.Path = append([]PathEl{}, p.Path...)
	cur := t
	for _, ix := range index {
		// embedded pointer: load and continue from the pointee
		if pt, ok := cur.Underlying().(*types.Pointer); ok {
			loaded := env.st.load(np).(VPtr)
			np = loaded
			np.Path = append([]PathEl{}, np.Path...)
			cur = pt.Elem()
		}
		np.Path = append(np.Path, PathEl{Field: ix})
		cur = cur.Underlying().(*types.Struct).Field(ix).Type()
	}
	return np, true
}

func (env *SpecEnv) sel(e *SExpr) Val {
	// package-qualified name or observer field
	if b := e.Args[0]; b.Kind == "ident" {
		if _, isBound := env.bound[b.Name]; !isBound {
			if v, ok := env.ghost(b.Name + "." + e.Name); ok {
				return v
			}
			_, isVar := env.vars[b.Name]
			_, isOld := env.oldVars[b.Name]
			if !isVar && !isOld {
				if _, isLocal := env.lookupLocal(b.Name); !isLocal {
					for _, o := range env.observers() {
						if o.Name == b.Name {
							if e.Name == "count" {
								return VInt{T: IntLit(0)}
							}
							// argument of a call that did not happen: arbitrary
							return VInt{T: env.st.freshInt("unobserved")}
						}
					}
					if path := env.importPath(b.Name); path != "" {
						if v, ok := env.pkgMember(path, e.Name); ok {
							return v
						}
						env.fail("unknown package member %s.%s", b.Name, e.Name)
					}
				}
			}
		}
	}
	base := env.ev(e.Args[0])
	return env.selOn(base, e.Name, e)
}

func (env *SpecEnv) selOn(base Val, name string, e *SExpr) Val {
	switch b := base.(type) {
	case VPtr:
		if np, ok := env.goField(b, name); ok {
			return unwrapAtomic(env.st.load(np))
		}
		if v, ok := env.modelField(b, name); ok {
			return v
		}
	case VStruct:
		u := b.T.Underlying().(*types.Struct)
		for i := 0; i < u.NumFields(); i++ {
			if u.Field(i).Name() == name {
				return b.F[i]
			}
		}
		for i := 0; i < u.NumFields(); i++ {
			if u.Field(i).Embedded() {
				if inner, ok := b.F[i].(VStruct); ok {
					iu := inner.T.Underlying().(*types.Struct)
					for j := 0; j < iu.NumFields(); j++ {
						if iu.Field(j).Name() == name {
							return inner.F[j]
						}
					}
				}
			}
		}
	case VInt:
		if b.Rec != "" {
			if v, ok := env.recField(b.Rec, name, b.T); ok {
				return v
			}
		}
		if v, ok := env.modelField(b, name); ok {
			return v
		}
	case VIface:
		if v, ok := env.modelField(b, name); ok {
			return v
		}
		switch name {
		case "tag":
			return VInt{T: b.Tag}
		case "val":
			return VInt{T: b.Val}
		}
	case VSlice:
		switch name {
		case "arr":
			return VInt{T: b.Arr}
		case "off":
			return VInt{T: b.Off}
		}
	}
	env.fail("no field or model field %q on %T in %s", name, base, exprStr(e))
	return nil
}

func (env *SpecEnv) index(e *SExpr) Val {
	base := env.ev(e.Args[0])
	idx := env.evalInt(e.Args[1])
	switch b := base.(type) {
	case VSlice:
		p := VPtr{Ref: b.Arr, Root: types.NewSlice(b.Elem), Path: []PathEl{{Field: -1, Index: Add(b.Off, idx)}}}
		return env.st.load(p)
	case VModel:
		t := Select(b.T, idx)
		if b.Dims == 1 {
			rec := ""
			if b.Elem != "Int" && b.Elem != "Bool" {
				rec = b.Elem
			}
			return VInt{T: t, Rec: rec}
		}
		return VModel{T: t, Dims: b.Dims - 1, Elem: b.Elem}
	case VArray:
		return getPath(env.st.eng, b, b.T, []PathEl{{Field: -1, Index: idx}})
	case VMap:
		prefix, _ := env.x.mapHeaps(env.st, b)
		ls := env.st.eng.leaves(b.T.Elem())
		ts := make([]*Term, len(ls))
		for j, l := range ls {
			arr := env.st.heapGet(prefix+"#val"+l.Path, ArrSort(ArrSort(l.Sort)))
			ts[j] = Select(Select(arr, b.Ref), idx)
		}
		v, _ := env.st.eng.unflatten(b.T.Elem(), ts)
		return v
	case VInt:
		if IsArrSort(b.T.Sort) {
			return VInt{T: Select(b.T, idx)}
		}
	}
	env.fail("cannot index %T in %s", base, exprStr(e))
	return nil
}

func (env *SpecEnv) sliceExpr(e *SExpr) Val {
	base, ok := env.ev(e.Args[0]).(VSlice)
	if !ok {
		env.fail("slice expression on non-slice in %s", exprStr(e))
	}
	lo := IntLit(0)
	hi := base.Len
	if e.Args[1] != nil {
		lo = env.evalInt(e.Args[1])
	}
	if e.Args[2] != nil {
		hi = env.evalInt(e.Args[2])
	}
	return VSlice{Arr: base.Arr, Off: Add(base.Off, lo), Len: Sub(hi, lo), Cap: Sub(base.Cap, lo), Elem: base.Elem}
}

func (env *SpecEnv) unary(e *SExpr) Val {
	switch e.Op {
	case "!":
		env.neg = !env.neg
		t := env.evalBool(e.Args[0])
		env.neg = !env.neg
		return VInt{T: Not(t)}
	case "-":
		return VInt{T: Sub(IntLit(0), env.evalInt(e.Args[0]))}
	case "*":
		p, ok := env.ev(e.Args[0]).(VPtr)
		if !ok {
			env.fail("deref of non-pointer in %s", exprStr(e))
		}
		return env.st.load(p)
	}
	env.fail("unary %s", e.Op)
	return nil
}

// seqAbs is the abstract value of a list of byte strings. Assumption (listed in evidence):
// a list is not mutated in place after it was first abstracted, so it is identified by its
// slice header; sameSeq supplies extensionality between different headers.
func (env *SpecEnv) seqAbs(s VSlice) *Term {
	t := Ite(Eq(s.Len, IntLit(0)), UF("EmptySeq", SInt), UF("seqid", SInt, s.Arr, s.Off, s.Len))
	env.st.addFact(Eq(UF("seqlen", SInt, t), s.Len))
	return t
}

// unwrapAtomic lets specs write pb.lastHeight for the value of an atomic cell.
func unwrapAtomic(v Val) Val {
	s, ok := v.(VStruct)
	if !ok {
		return v
	}
	n, ok := s.T.(*types.Named)
	if !ok || n.Obj().Pkg() == nil || n.Obj().Pkg().Path() != "sync/atomic" {
		return v
	}
	u := s.T.Underlying().(*types.Struct)
	for i := 0; i < u.NumFields(); i++ {
		if u.Field(i).Name() == "v" {
			if n.Obj().Name() == "Bool" {
				return VInt{T: Neq(asInt(s.F[i]), IntLit(0))}
			}
			return s.F[i]
		}
	}
	return v
}

// eqVals is spec-level equality.
func (env *SpecEnv) eqVals(a, b Val, e *SExpr) *Term {
	if _, ok := a.(VNil); ok {
		a, b = b, a
	}
	if _, ok := b.(VNil); ok {
		switch av := a.(type) {
		case VNil:
			return tTrue
		case VIface:
			return Eq(av.Tag, IntLit(0))
		case VPtr:
			if av.Alloc != nil || len(av.Path) > 0 {
				return tFalse
			}
			return Eq(av.Ref, IntLit(0))
		case VSlice:
			return Eq(av.Arr, IntLit(0))
		case VMap:
			return Eq(av.Ref, IntLit(0))
		case VFunc:
			if av.Fn != nil {
				return tFalse
			}
			if av.ID != nil {
				return Eq(av.ID, IntLit(0))
			}
		case VInt:
			return Eq(av.T, IntLit(0))
		}
		env.fail("comparison of %T with nil", a)
	}
	switch av := a.(type) {
	case VInt:
		if bv, ok := b.(VInt); ok {
			if av.T.Sort != bv.T.Sort {
				env.fail("sort mismatch in %s: %s vs %s", exprStr(e), av.T.Sort, bv.T.Sort)
			}
			return Eq(av.T, bv.T)
		}
		return Eq(av.T, env.scalar(b, e))
	case VSlice:
		if bv, ok := b.(VSlice); ok {
			return And(Eq(av.Arr, bv.Arr), Eq(av.Off, bv.Off), Eq(av.Len, bv.Len))
		}
		return Eq(env.scalar(a, e), env.scalar(b, e))
	case VIface:
		if bv, ok := b.(VIface); ok {
			return And(Eq(av.Tag, bv.Tag), Or(Eq(av.Tag, IntLit(0)), Eq(av.Val, bv.Val)))
		}
	case VStruct:
		if bv, ok := b.(VStruct); ok {
			ta := env.st.flatten(av, av.T)
			tb := env.st.flatten(bv, bv.T)
			var cs []*Term
			for i := range ta {
				cs = append(cs, Eq(ta[i], tb[i]))
			}
			return And(cs...)
		}
	case VModel:
		if bv, ok := b.(VModel); ok {
			return Eq(av.T, bv.T)
		}
	case VArray:
		if bv, ok := b.(VArray); ok {
			var cs []*Term
			for i := range av.L {
				cs = append(cs, Eq(av.L[i], bv.L[i]))
			}
			return And(cs...)
		}
	}
	return Eq(env.scalar(a, e), env.scalar(b, e))
}

func (env *SpecEnv) binary(e *SExpr) Val {
	switch e.Op {
	case "&&":
		a := env.evalBool(e.Args[0])
		if a.IsFalse() {
			return VInt{T: tFalse}
		}
		return VInt{T: And(a, env.evalBool(e.Args[1]))}
	case "||":
		a := env.evalBool(e.Args[0])
		if a.IsTrue() {
			return VInt{T: tTrue}
		}
		return VInt{T: Or(a, env.evalBool(e.Args[1]))}
	case "==>":
		env.neg = !env.neg
		a := env.evalBool(e.Args[0])
		env.neg = !env.neg
		if a.IsFalse() {
			return VInt{T: tTrue}
		}
		return VInt{T: Implies(a, env.evalBool(e.Args[1]))}
	case "<==>":
		saved := env.goal
		env.goal = false // both polarities: no skolemisation
		a := env.evalBool(e.Args[0])
		b := env.evalBool(e.Args[1])
		env.goal = saved
		return VInt{T: Eq(a, b)}
	case "==":
		return VInt{T: env.eqVals(env.ev(e.Args[0]), env.ev(e.Args[1]), e)}
	case "!=":
		return VInt{T: Not(env.eqVals(env.ev(e.Args[0]), env.ev(e.Args[1]), e))}
	}
	a := env.evalInt(e.Args[0])
	b := env.evalInt(e.Args[1])
	switch e.Op {
	case "<":
		return VInt{T: Lt(a, b)}
	case "<=":
		return VInt{T: Le(a, b)}
	case ">":
		return VInt{T: Gt(a, b)}
	case ">=":
		return VInt{T: Ge(a, b)}
	case "+":
		return VInt{T: Add(a, b)}
	case "-":
		return VInt{T: Sub(a, b)}
	case "*":
		return VInt{T: Mul(a, b)}
	case "/":
		return VInt{T: Div(a, b)}
	case "%":
		return VInt{T: Mod(a, b)}
	}
	env.fail("binary %s", e.Op)
	return nil
}

func (env *SpecEnv) quant(e *SExpr) Val {
	if env.bound == nil {
		env.bound = map[string]*Term{}
	}
	saved := map[string]*Term{}
	var bs []*Term
	// forall to be proved (positive, goal) or assumed negatively: skolemise
	skolem := (e.Kind == "forall" && env.goal && !env.neg) || (e.Kind == "exists" && !env.goal && !env.neg) ||
		(e.Kind == "exists" && env.goal && env.neg) || (e.Kind == "forall" && !env.goal && env.neg)
	var hints []*Term
	for _, h := range e.Hints {
		hints = append(hints, env.evalInt(h))
	}
	nUniv := len(env.univ)
	for _, n := range e.Bound {
		if old, ok := env.bound[n]; ok {
			saved[n] = old
		}
		var s *Term
		if skolem {
			prefix := "sk_"
			if e.Kind == "exists" {
				prefix = "ex_" // a witness: candidate instance for existentials that have to be proved
			}
			if len(env.univ) > 0 {
				// below a quantifier that stays: the skolem is a function of its variables
				env.x.fresh++
				s = UF(fmt.Sprintf("%s%s!%d", prefix, n, env.x.fresh), SInt, env.univ...)
			} else {
				s = env.st.freshInt(prefix + n)
				if env.goal {
					env.st.skolems = append(env.st.skolems, s)
				}
			}
		} else {
			env.x.fresh++
			s = Sym(fmt.Sprintf("%s?%d", n, env.x.fresh), SInt)
		}
		env.bound[n] = s
		bs = append(bs, s)
	}
	if !skolem {
		env.univ = append(env.univ[:nUniv:nUniv], bs...)
	}
	nFacts := len(env.st.facts)
	body := env.evalBool(e.Args[0])
	env.univ = env.univ[:nUniv]
	if !skolem && len(env.st.facts) > nFacts {
		// typing facts about terms that mention the bound variables must be quantified too
		var keep, lift []*Term
		for _, ft := range env.st.facts[nFacts:] {
			mentions := false
			for _, b := range bs {
				if containsSym(ft, b.Name) {
					mentions = true
				}
			}
			if mentions {
				lift = append(lift, ft)
				delete(env.st.factSet, ft.String())
			} else {
				keep = append(keep, ft)
			}
		}
		env.st.facts = append(env.st.facts[:nFacts:nFacts], keep...)
		if len(lift) > 0 {
			env.st.addFact(Forall(bs, And(lift...)))
		}
	}
	for _, n := range e.Bound {
		if old, ok := saved[n]; ok {
			env.bound[n] = old
		} else {
			delete(env.bound, n)
		}
	}
	if skolem {
		return VInt{T: body}
	}
	if e.Kind == "forall" {
		return VInt{T: Forall(bs, body)}
	}
	if len(bs) == 1 {
		// small literal witnesses: what a loop that was unrolled a few times needs
		for k := int64(0); k <= unrollBound; k++ {
			hints = append(hints, IntLit(k))
		}
	}
	return VInt{T: &Term{Op: "exists", Sort: SBool, Bound: bs, Args: append([]*Term{body}, hints...)}}
}

func (env *SpecEnv) sortOf(name string) (sort, rec string) {
	switch name {
	case "Int", "Bytes", "Str", "Ref", "Key", "Time":
		return SInt, ""
	case "Bool":
		return SBool, ""
	case "IntArr":
		return ArrSort(SInt), ""
	case "BoolArr", "Set":
		return ArrSort(SBool), ""
	}
	if _, ok := env.st.eng.db.Records[name]; ok {
		return SInt, name
	}
	env.fail("unknown spec sort %q", name)
	return "", ""
}

func (env *SpecEnv) call(e *SExpr) Val {
	fn := e.Args[0]
	args := e.Args[1:]
	if fn.Kind == "sel" {
		// method-style spec call on a Go value is not supported; treat pkg.Func as spec func name
		env.fail("method calls are not available in specs: %s", exprStr(e))
	}
	if fn.Kind != "ident" {
		env.fail("call of non-identifier in %s", exprStr(e))
	}
	name := fn.Name
	db := env.st.eng.db
	switch name {
	case "old":
		if env.oldHeap == nil {
			env.fail("old() without a pre-state")
		}
		var r Val
		savedOld := env.inOld
		env.inOld = true
		env.withHeap(env.oldHeap, func() { r = env.ev(args[0]) })
		env.inOld = savedOld
		return r
	case "iter":
		// value of e at the start of the current loop iteration (at a loop head: the current value)
		if env.iterHeap == nil {
			return env.ev(args[0])
		}
		var r Val
		saved := env.inIter
		env.inIter = true
		env.withHeap(copyHeap(env.iterHeap), func() { r = env.ev(args[0]) })
		env.inIter = saved
		return r
	case "recvCount", "sendCount", "closeCount":
		if len(args) != 1 || args[0].Kind != "str" {
			env.fail("%s(\"channel name\")", name)
		}
		key := strings.TrimSuffix(name, "Count") + ":" + args[0].Name + ".count"
		if _, ok := env.st.ghosts[key]; !ok && name == "recvCount" {
			if alt := env.soleRecvChannel(args[0].Name); alt != "" {
				key = "recv:" + alt + ".count"
			}
		}
		if v, ok := env.ghost(key); ok {
			if vi, isInt := v.(VInt); isInt {
				return vi
			}
		}
		return VInt{T: IntLit(0)}
	case "recvOpen":
		// recvOpen("channel name"): the last `v, ok := <-ch` (or range step) on it got a value;
		// false means the channel was found closed and drained
		if len(args) != 1 || args[0].Kind != "str" {
			env.fail("recvOpen(\"channel name\")")
		}
		if v, ok := env.st.ghosts["recv:"+args[0].Name+".ok"]; ok {
			return v
		}
		if alt := env.soleRecvChannel(args[0].Name); alt != "" {
			if v, ok := env.st.ghosts["recv:"+alt+".ok"]; ok {
				return v
			}
		}
		return VInt{T: env.st.freshSym("never_received", SBool)}
	case "sent":
		if len(args) != 1 || args[0].Kind != "str" {
			env.fail("sent(\"channel name\")")
		}
		if v, ok := env.st.ghosts["send:"+args[0].Name+".last"]; ok {
			return v
		}
		return VInt{T: env.st.freshInt("nothing_sent")}
	case "now":
		if v, ok := env.st.ghosts["time.now"].(VInt); ok {
			return v
		}
		n := VInt{T: Sym("now0", SInt)}
		env.st.ghosts["time.now"] = n
		return n
	case "len":
		return VInt{T: env.x.lenOf(env.st, env.ev(args[0]))}
	case "cap":
		if s, ok := env.ev(args[0]).(VSlice); ok {
			return VInt{T: s.Cap}
		}
	case "val":
		v := env.ev(args[0])
		if s, ok := v.(VSlice); ok {
			return VInt{T: env.st.bval(s)}
		}
		return VInt{T: env.scalar(v, e)}
	case "max", "min":
		a, b := env.evalInt(args[0]), env.evalInt(args[1])
		if name == "max" {
			return VInt{T: Ite(Ge(a, b), a, b)}
		}
		return VInt{T: Ite(Le(a, b), a, b)}
	case "ite":
		saved := env.goal
		env.goal = false
		c := env.evalBool(args[0])
		env.goal = saved
		a, b := env.ev(args[1]), env.ev(args[2])
		ai, aok := a.(VInt)
		bi, bok := b.(VInt)
		if aok && bok {
			return VInt{T: Ite(c, ai.T, bi.T), Rec: ai.Rec}
		}
		return VInt{T: Ite(c, env.scalar(a, e), env.scalar(b, e))}
	case "isErr":
		a, ok1 := env.ev(args[0]).(VIface)
		b, ok2 := env.ev(args[1]).(VIface)
		if !ok1 || !ok2 {
			env.fail("isErr expects two errors")
		}
		return VInt{T: env.x.errIs(env.st, a, b)}
	case "msgHas":
		a, ok1 := env.ev(args[0]).(VIface)
		if !ok1 {
			env.fail("msgHas expects an error")
		}
		var m *Term
		switch b := env.ev(args[1]).(type) {
		case VIface:
			m = UF("errmsg", SInt, b.Val)
		case VInt:
			m = b.T
		}
		return VInt{T: And(Neq(a.Tag, IntLit(0)), Or(Eq(UF("errmsg", SInt, a.Val), m), Select(UF("msgset", ArrSort(SBool), a.Val), m)))}
	case "typeIs":
		a, ok := env.ev(args[0]).(VIface)
		if !ok || args[1].Kind != "str" {
			env.fail("typeIs(iface, \"type string\")")
		}
		for k, id := range env.st.eng.typeIDs {
			if k == args[1].Name || strings.HasSuffix(k, "."+args[1].Name) {
				return VInt{T: Eq(a.Tag, IntLit(id))}
			}
		}
		return VInt{T: tFalse}
	case "select":
		a := env.ev(args[0])
		return VInt{T: Select(env.scalar(a, e), env.evalInt(args[1]))}
	case "emptyBoolMap":
		return VModel{T: ConstArr(ArrSort(SBool), tFalse), Dims: 1, Elem: "Bool"}
	case "newly":
		// newly(x): x (a slice or pointer) is nil or was allocated during the call the contract describes
		var r *Term
		switch v := env.ev(args[0]).(type) {
		case VSlice:
			r = v.Arr
		case VPtr:
			r = v.Ref
		default:
			env.fail("newly expects a slice or a pointer")
		}
		lo := int64(refBase)
		if env.callK > 0 {
			lo = env.callK + 1
		}
		return VInt{T: Or(Eq(r, IntLit(0)), And(Ge(r, IntLit(lo)), Lt(r, IntLit(1000000000))))}
	case "chanCap":
		// chanCap(ch): the buffer size the channel was made with
		return VInt{T: UF("chancap", SInt, env.evalInt(args[0]))}
	case "armed":
		// armed(t): the timer or ticker t will fire (again) without further action
		v, ok := env.ev(args[0]).(VPtr)
		if !ok {
			env.fail("armed expects a *time.Timer or *time.Ticker")
		}
		if n := namedOf(env.st.eng.pointee(v)); n != nil && n.Obj().Name() == "Ticker" {
			return VInt{T: tTrue}
		}
		return VInt{T: Select(env.st.heapGet("model:Timer.armed", ArrSort(SBool)), v.Ref)}
	case "xor":
		// xor(a, b): Go's a ^ b on unsigned operands (uninterpreted, as in the code's own translation)
		return VInt{T: UF("bitxor", SInt, env.evalInt(args[0]), env.evalInt(args[1]))}
	case "jsonInt":
		// jsonInt(b): the integer that json.Unmarshal decodes from the bytes b (when it succeeds)
		return VInt{T: UF("jsonint", SInt, env.evalInt(args[0]))}
	case "strOf":
		// the string string(b) for byte content b (val of a byte slice)
		return VInt{T: UF("str_of_bytes", SInt, env.evalInt(args[0]))}
	case "bytesOf":
		// the content of []byte(s) for a string s
		return VInt{T: UF("bytes_of_str", SInt, env.evalInt(args[0]))}
	case "decStr":
		// decStr(n): the decimal rendering of the uint64 n (strconv.FormatUint(n, 10)); injective
		n := env.evalInt(args[0])
		bx := UF("box:uint64", SInt, n)
		r := UF("decstr", SInt, bx)
		if len(env.bound) == 0 {
			env.st.addFact(Eq(UF("unbox:uint64", SInt, bx), n))
			env.st.addFact(Eq(UF("undecstr", SInt, r), bx))
		}
		return VInt{T: r}
	case "decBytes":
		// the bytes of the decimal rendering of a uint64 (as produced by []byte(fmt.Sprintf("%d", n)))
		n := env.evalInt(args[0])
		return VInt{T: UF("bytes_of_str", SInt, UF("decstr", SInt, UF("box:uint64", SInt, n)))}
	case "sumLen":
		// sumLen(s, n): total length of the first n byte strings of s; evaluating it unfolds the
		// recursive definition once (enough for running-sum loop invariants)
		sl, ok := env.ev(args[0]).(VSlice)
		if !ok {
			env.fail("sumLen expects a slice of byte strings")
		}
		n := env.evalInt(args[1])
		lenArr := env.st.heapGet("[]"+env.st.eng.typeKey(sl.Elem)+"#len", ArrSort(ArrSort(SInt)))
		row := Select(lenArr, sl.Arr)
		f := func(k *Term) *Term { return UF("sumlen", SInt, row, sl.Off, k) }
		t := f(n)
		prev := Sub(n, IntLit(1))
		env.st.addFact(Eq(f(IntLit(0)), IntLit(0)))
		env.st.addFact(Implies(Gt(n, IntLit(0)), Eq(t, Add(f(prev), Select(row, Add(sl.Off, prev))))))
		env.st.addFact(Implies(Ge(n, IntLit(0)), Eq(f(Add(n, IntLit(1))), Add(t, Select(row, Add(sl.Off, n))))))
		env.st.addFact(Implies(Ge(n, IntLit(0)), Ge(t, IntLit(0))))
		// the first few values outright (what a loop unrolled a few times needs)
		for k := int64(0); k <= unrollBound+1; k++ {
			env.st.addFact(Eq(f(IntLit(k+1)), Add(f(IntLit(k)), Select(row, Add(sl.Off, IntLit(k))))))
		}
		return VInt{T: t}
	case "seq":
		sl, ok := env.ev(args[0]).(VSlice)
		if !ok {
			env.fail("seq expects a slice")
		}
		return VInt{T: env.seqAbs(sl)}
	case "sameSeq":
		a, ok1 := env.ev(args[0]).(VSlice)
		b, ok2 := env.ev(args[1]).(VSlice)
		if !ok1 || !ok2 {
			env.fail("sameSeq expects two slices of byte strings")
		}
		// pointwise equality of two lists of byte strings; when assumed, extensionality also
		// gives equality of the abstract sequences
		sub := &SExpr{Kind: "forall", Bound: []string{"i$"}, Args: []*SExpr{{Kind: "call", Args: []*SExpr{{Kind: "ident", Name: "$sameAt"}}}}}
		_ = sub
		positive := env.goal && !env.neg
		var k *Term
		if positive {
			k = env.st.freshInt("sk_i")
			env.st.skolems = append(env.st.skolems, k)
		} else {
			env.x.fresh++
			k = Sym(fmt.Sprintf("i?%d", env.x.fresh), SInt)
		}
		ea := env.st.load(VPtr{Ref: a.Arr, Root: types.NewSlice(a.Elem), Path: []PathEl{{Field: -1, Index: Add(a.Off, k)}}})
		eb := env.st.load(VPtr{Ref: b.Arr, Root: types.NewSlice(b.Elem), Path: []PathEl{{Field: -1, Index: Add(b.Off, k)}}})
		sa, oka := ea.(VSlice)
		sb, okb := eb.(VSlice)
		if !oka || !okb {
			env.fail("sameSeq: elements are not byte strings")
		}
		point := Implies(And(Ge(k, IntLit(0)), Lt(k, a.Len)), Eq(env.st.bval(sa), env.st.bval(sb)))
		if positive {
			return VInt{T: And(Eq(a.Len, b.Len), point)}
		}
		if env.goal {
			env.fail("sameSeq in a negative position of a goal is not supported")
		}
		return VInt{T: And(Eq(a.Len, b.Len), Forall([]*Term{k}, point), Eq(env.seqAbs(a), env.seqAbs(b)))}
	case "ctxDone":
		a, ok := env.ev(args[0]).(VIface)
		if !ok {
			env.fail("ctxDone expects a context")
		}
		return VInt{T: UF("ctxdone", SBool, a.Val)}
	}
	if p, ok := db.Preds[name]; ok {
		if len(args) != len(p.Params) {
			env.fail("pred %s: %d arguments for %d parameters", name, len(args), len(p.Params))
		}
		vals := make([]Val, len(args))
		for i, a := range args {
			vals[i] = env.ev(a)
		}
		saved := map[string]Val{}
		had := map[string]bool{}
		for i, pn := range p.Params {
			if old, ok := env.vars[pn]; ok {
				saved[pn] = old
				had[pn] = true
			}
			env.vars[pn] = vals[i]
		}
		// predicate parameters shadow everything, also inside old()
		savedOldVars := env.oldVars
		nv := map[string]Val{}
		for k, v := range env.oldVars {
			nv[k] = v
		}
		for i, pn := range p.Params {
			nv[pn] = vals[i]
		}
		env.oldVars = nv
		r := env.ev(p.Body)
		env.oldVars = savedOldVars
		for _, pn := range p.Params {
			if had[pn] {
				env.vars[pn] = saved[pn]
			} else {
				delete(env.vars, pn)
			}
		}
		return r
	}
	if r, ok := db.Records[name]; ok {
		if len(args) != len(r.Fields) {
			env.fail("record %s: %d arguments for %d fields", name, len(args), len(r.Fields))
		}
		ts := make([]*Term, len(args))
		for i, a := range args {
			ts[i] = env.scalar(env.ev(a), a)
		}
		c := UF("mk_"+name, SInt, ts...)
		for i, f := range r.Fields {
			sort := SInt
			if f.Type == "Bool" {
				sort = SBool
			}
			env.st.addFact(Eq(UF(name+"_"+f.Name, sort, c), ts[i]))
		}
		return VInt{T: c, Rec: name}
	}
	if sf, ok := db.Funcs[name]; ok {
		if len(args) != len(sf.Args) {
			env.fail("spec func %s: %d arguments for %d parameters", name, len(args), len(sf.Args))
		}
		ts := make([]*Term, len(args))
		for i, a := range args {
			ts[i] = env.scalar(env.ev(a), a)
			want, _ := env.sortOf(sf.Args[i])
			if ts[i].Sort != want {
				env.fail("spec func %s: argument %d has sort %s, want %s", name, i, ts[i].Sort, want)
			}
		}
		rs, rec := env.sortOf(sf.Res)
		t := UF(name, rs, ts...)
		if sf.Inverse != "" && len(ts) == 1 {
			env.st.addFact(Eq(UF(sf.Inverse, ts[0].Sort, t), ts[0]))
		}
		if sf.Injectve {
			for i := range ts {
				env.st.addFact(Eq(UF(fmt.Sprintf("%s^-1#%d", name, i), ts[i].Sort, t), ts[i]))
			}
		}
		return VInt{T: t, Rec: rec}
	}
	env.fail("unknown spec function %q", name)
	return nil
}

// ---- locations (modifies) -----------------------------------------------------------

// Loc is one heap array cell (or row, when Idx is shorter than the array's depth).
type Loc struct {
	Name string
	Sort string // sort of the whole heap array
	Idx  []*Term
}

func (env *SpecEnv) ptrLocs(p VPtr) []Loc {
	st := env.st
	if p.Alloc != nil {
		env.fail("modifies: location is a local variable")
	}
	prefix, idx := st.eng.heapAddr(p)
	var out []Loc
	for _, l := range st.eng.leaves(st.eng.pointee(p)) {
		out = append(out, Loc{Name: prefix + l.Path, Sort: nestedSort(l.Sort, len(idx)), Idx: idx})
	}
	return out
}

// locs interprets a modifies expression as a set of heap locations.
func (env *SpecEnv) locs(e *SExpr) []Loc {
	st := env.st
	switch e.Kind {
	case "sel":
		if e.Name == "*" {
			p, ok := env.ev(e.Args[0]).(VPtr)
			if !ok {
				env.fail("modifies %s: not a pointer", exprStr(e))
			}
			return env.ptrLocs(p)
		}
		base := env.ev(e.Args[0])
		if p, ok := base.(VPtr); ok {
			if np, ok := env.goField(p, e.Name); ok {
				return env.ptrLocs(np)
			}
		}
		if name, ref, sort, ok := env.modelLoc(base, e.Name); ok {
			return []Loc{{Name: name, Sort: sort, Idx: []*Term{ref}}}
		}
	case "index":
		if e.Args[0].Kind == "sel" {
			base := env.ev(e.Args[0].Args[0])
			if _, isPtr := base.(VPtr); !isPtr || true {
				if name, ref, sort, ok := env.modelLoc(base, e.Args[0].Name); ok {
					if _, isGo := env.tryGoField(base, e.Args[0].Name); !isGo {
						return []Loc{{Name: name, Sort: sort, Idx: []*Term{ref, env.evalInt(e.Args[1])}}}
					}
				}
			}
		}
		if s, ok := env.ev(e.Args[0]).(VSlice); ok {
			k := env.evalInt(e.Args[1])
			p := VPtr{Ref: s.Arr, Root: types.NewSlice(s.Elem), Path: []PathEl{{Field: -1, Index: Add(s.Off, k)}}}
			return env.ptrLocs(p)
		}
	case "slice":
		if s, ok := env.ev(e.Args[0]).(VSlice); ok {
			names, sorts := env.x.elemHeaps(st, s.Elem)
			var out []Loc
			for i, name := range names {
				out = append(out, Loc{Name: name, Sort: ArrSort(ArrSort(sorts[i])), Idx: []*Term{s.Arr}})
			}
			return out
		}
	case "unary":
		if e.Op == "*" {
			if p, ok := env.ev(e.Args[0]).(VPtr); ok {
				return env.ptrLocs(p)
			}
		}
	case "ident":
		if v, ok := env.ev(e).(VPtr); ok {
			return env.ptrLocs(v)
		}
	}
	env.fail("modifies: cannot interpret location %s", exprStr(e))
	return nil
}

func (env *SpecEnv) tryGoField(base Val, name string) (VPtr, bool) {
	if p, ok := base.(VPtr); ok {
		return env.goField(p, name)
	}
	return VPtr{}, false
}

// havocLoc gives the locations denoted by e fresh values.
func (env *SpecEnv) havocLoc(e *SExpr) {
	st := env.st
	for _, l := range env.locs(e) {
		arr := st.heapGet(l.Name, l.Sort)
		es := l.Sort
		for range l.Idx {
			es = ElemSort(es)
		}
		st.heapSet(l.Name, storeN(arr, l.Idx, st.freshSym("mod:"+l.Name, es)))
	}
}

// havocHeap gives every heap array with this name (and its leaf suffixes) a fresh value.
func (env *SpecEnv) havocHeap(name string) {
	st := env.st
	for _, k := range sortedKeys(st.heap) {
		if k == name || strings.HasPrefix(k, name+"#") {
			st.heapSet(k, st.freshSym("mod:"+k, st.heap[k].Sort))
		}
	}
	st.havocNames = append(st.havocNames, name)
}

func (env *SpecEnv) modelLoc(owner Val, name string) (heap string, ref *Term, sort string, ok bool) {
	db := env.st.eng.db
	var mf *ModelField
	n := 0
	for _, m := range db.Models {
		if m.Name == name {
			mf = m
			n++
		}
	}
	if n != 1 {
		return "", nil, "", false
	}
	switch o := owner.(type) {
	case VIface:
		ref = o.Val
	case VPtr:
		ref = o.Ref
	case VInt:
		ref = o.T
	default:
		return "", nil, "", false
	}
	es := SInt
	if mf.Elem == "Bool" {
		es = SBool
	}
	return "model:" + mf.Owner + "." + mf.Name, ref, ArrSort(nestedSort(es, mf.Dims)), true
}
