package main

// Must-fail corpus: deliberately broken bodies, applied as go/packages overlays (nothing is
// written to /repo), each with the obligation it has to break.

import (
	"encoding/json"
	"flag"
	"fmt"
	"os"
	"path/filepath"
	"runtime/debug"
	"strings"
)

type Mutant struct {
	ID       string   `json:"id"`
	Property string   `json:"property"`
	File     string   `json:"file"`
	Old      string   `json:"old"`
	New      string   `json:"new"`
	Expect   []string `json:"expect"` // substrings of "func # obligation" that must fail (any)
	Func     string   `json:"func"`   // optional: restrict verification to functions containing this
}

func loadMutants() ([]*Mutant, error) {
	files, _ := filepath.Glob(filepath.Join(verifRoot(), "selftest", "*.json"))
	var out []*Mutant
	for _, f := range files {
		b, err := os.ReadFile(f)
		if err != nil {
			return nil, err
		}
		var ms []*Mutant
		if err := json.Unmarshal(b, &ms); err != nil {
			return nil, fmt.Errorf("%s: %v", f, err)
		}
		out = append(out, ms...)
	}
	return out, nil
}

// runMutants returns (caught, total, messages about uncaught ones).
func runMutants(property, only string, verbose bool) (int, int, []string) {
	ms, err := loadMutants()
	if err != nil {
		return 0, 0, []string{err.Error()}
	}
	caught, total := 0, 0
	var msgs []string
	knownOpen := map[string]bool{}
	for _, f := range loadFindings().Open {
		knownOpen[f.Property+"|"+f.Func+"#"+f.Obligation] = true
	}
	for _, m := range ms {
		if property != "" && m.Property != property {
			continue
		}
		if only != "" && !strings.Contains(m.ID, only) {
			continue
		}
		total++
		path := filepath.Join(repoRoot(), m.File)
		src, err := os.ReadFile(path)
		if err != nil {
			msgs = append(msgs, fmt.Sprintf("%s: %v", m.ID, err))
			continue
		}
		if strings.Count(string(src), m.Old) != 1 {
			msgs = append(msgs, fmt.Sprintf("%s: pattern occurs %d times in %s (want 1) - the corpus is stale", m.ID, strings.Count(string(src), m.Old), m.File))
			continue
		}
		mutated := strings.Replace(string(src), m.Old, m.New, 1)
		debug.FreeOSMemory() // each run loads the packages afresh; give the previous one's memory back first
		run, err := runProperty(m.Property, "quick", 10, map[string][]byte{path: []byte(mutated)}, m.Func)
		if err != nil {
			msgs = append(msgs, fmt.Sprintf("%s: %v", m.ID, err))
			continue
		}
		var failed []string
		for _, g := range run.groups {
			if knownOpen[m.Property+"|"+g.Func+"#"+g.Name] {
				continue // fails on the unchanged tree already (recorded finding): proves nothing about the mutant
			}
			if !g.OK && g.Kind != "cover" {
				failed = append(failed, shortFunc(g.Func)+" # "+g.Name)
			}
		}
		hit := false
		for _, f := range failed {
			for _, e := range m.Expect {
				if strings.Contains(f, e) {
					hit = true
				}
			}
		}
		if len(m.Expect) == 0 && len(failed) > 0 {
			hit = true
		}
		if len(run.engErrs) > 0 && !hit {
			msgs = append(msgs, fmt.Sprintf("%s: engine error: %s", m.ID, strings.Join(run.engErrs, "; ")))
			continue
		}
		if hit {
			caught++
			if verbose {
				fmt.Printf("caught %s: %s\n", m.ID, strings.Join(failed, ", "))
			}
		} else {
			msgs = append(msgs, fmt.Sprintf("%s: NOT caught (failed obligations: %v; expected one containing %v)", m.ID, failed, m.Expect))
		}
	}
	return caught, total, msgs
}

func cmdSelftest(args []string) {
	fs := flag.NewFlagSet("selftest", flag.ExitOnError)
	prop := fs.String("property", "", "only mutants of this property")
	only := fs.String("id", "", "only mutants whose id contains this")
	fs.Parse(args)
	caught, total, msgs := runMutants(*prop, *only, true)
	for _, m := range msgs {
		fmt.Println("SELFTEST:", m)
	}
	fmt.Printf("selftest: %d/%d mutants caught\n", caught, total)
	if caught != total {
		os.Exit(2)
	}
}
