package main

// Calls: contracts, inlining, built-in models, havoc; returns and postconditions.

import (
	"fmt"
	"go/types"
	"path/filepath"
	"strings"

	"golang.org/x/tools/go/ssa"
)

func (x *Explorer) doCall(st *State, f *Frame, ins ssa.Instruction, c *ssa.CallCommon, res ssa.Value) {
	var fnv Val
	if _, isB := c.Value.(*ssa.Builtin); !isB {
		fnv = x.val(st, f, c.Value)
	}
	args := make([]Val, len(c.Args))
	for i, a := range c.Args {
		args[i] = x.val(st, f, a)
	}
	x.doCallVals(st, f, ins, c, res, fnv, args, false)
}

// bind stores a call result and advances (not for deferred calls, which stay on RunDefers).
func (x *Explorer) bind(st *State, f *Frame, res ssa.Value, v Val, isDefer bool) {
	if isDefer {
		return
	}
	if res != nil {
		f.env[res] = v
	}
	f.pc++
}

func resultVal(sig *types.Signature, vals []Val) Val {
	switch sig.Results().Len() {
	case 0:
		return nil
	case 1:
		return vals[0]
	}
	return VTuple{E: vals}
}

func (x *Explorer) doCallVals(st *State, f *Frame, ins ssa.Instruction, c *ssa.CallCommon, res ssa.Value, fnv Val, args []Val, isDefer bool) {
	e := x.eng
	sig := c.Signature()
	site := e.siteOf(f, ins)
	if len(st.frames) == 1 && f.contract != nil && len(f.contract.AtCalls) > 0 && !st.dry && !isDefer {
		name := calleeName(c)
		if cls := f.contract.AtCalls[name]; len(cls) > 0 {
			if x.atCallSeen == nil {
				x.atCallSeen = map[string]bool{}
			}
			x.atCallSeen[name] = true
			env := x.specEnv(st, f, f.contract)
			for _, cl := range cls {
				if g, ok := x.goalOf(st, env, cl, "at-call", site); ok {
					x.emit(st, "at-call", cl.Label, site, g, cl.Where)
				}
			}
		}
	}
	if b, ok := c.Value.(*ssa.Builtin); ok && !c.IsInvoke() {
		x.bind(st, f, res, x.builtin(st, f, ins, b, c, args), isDefer)
		return
	}
	var target *ssa.Function
	var bindings []Val
	var con *Contract
	allArgs := args
	if c.IsInvoke() {
		recv := fnv
		if iv, ok := recv.(VIface); ok {
			x.check(st, "nil-interface-call", Neq(iv.Tag, IntLit(0)), ins)
		}
		allArgs = append([]Val{recv}, args...)
		// contract on the interface method: static type first, then the declaring interface
		var keys []string
		if n := namedOf(c.Value.Type()); n != nil && n.Obj().Pkg() != nil {
			keys = append(keys, n.Obj().Pkg().Path()+"."+n.Obj().Name()+"."+c.Method.Name())
		} else if n != nil {
			keys = append(keys, n.Obj().Name()+"."+c.Method.Name())
		}
		if r := c.Method.Type().(*types.Signature).Recv(); r != nil {
			if n := namedOf(r.Type()); n != nil && n.Obj().Pkg() != nil {
				keys = append(keys, n.Obj().Pkg().Path()+"."+n.Obj().Name()+"."+c.Method.Name())
			}
		}
		for _, k := range keys {
			if cc := e.db.Contracts[k]; cc != nil {
				con = cc
				break
			}
		}
		if con == nil {
			if iv, ok := recv.(VIface); ok && iv.DynT != nil && iv.Dyn != nil {
				ms := e.prog.MethodSets.MethodSet(iv.DynT)
				if sel := ms.Lookup(c.Method.Pkg(), c.Method.Name()); sel != nil {
					target = e.prog.MethodValue(sel)
					allArgs = append([]Val{iv.Dyn}, args...)
				}
			}
		}
		if con == nil && target == nil {
			if v, ok := x.ifaceModel(st, f, c, recv, args); ok {
				x.bind(st, f, res, v, isDefer)
				return
			}
			key := "invoke " + strings.Join(keys, "|")
			x.havocCallObs(st, f, key, c.Method.Name(), site, sig, res, isDefer, allArgs)
			return
		}
	} else {
		switch fv := fnv.(type) {
		case VFunc:
			target = fv.Fn
			bindings = fv.Bind
			if target == nil && fv.ID != nil && fv.ID.IsLit() && fv.ID.Int.Int64() == noopFuncID {
				x.bind(st, f, res, x.freshResults(st, sig, "noop"), isDefer)
				return
			}
			if target == nil {
				// opaque function value: contract on a parameter or a struct field
				if sc := x.funcValueContract(f, c.Value); sc != nil {
					con = sc
				} else if fv.Con != nil {
					con = fv.Con
				} else {
					x.havocCallObs(st, f, "dynamic call via "+valueName(c.Value), valueName(c.Value), site, sig, res, isDefer, allArgs)
					return
				}
			}
		default:
			x.havocCall(st, f, "dynamic call (non-function value)", sig, res, isDefer)
			return
		}
	}
	if target != nil && con == nil {
		key := e.fnKey(target)
		if cc := e.db.Contracts[key]; cc != nil && !cc.Inline {
			con = cc
		}
		if con == nil {
			snapsLib := x.argSnapshots(st, allArgs)
			if v, ok := x.libModel(st, f, ins, key, target, allArgs, sig); ok {
				var rv []Val
				if tu, isT := v.(VTuple); isT && sig.Results().Len() > 1 {
					rv = tu.E
				} else if v != nil {
					rv = []Val{v}
				}
				x.observe(st, f, target.Name(), site, allArgs, rv, snapsLib)
				x.bind(st, f, res, v, isDefer)
				return
			}
			if target.Blocks != nil && e.inModule(target) && len(st.frames) < e.maxInline && !x.onStack(st, target) {
				x.inline(st, f, target, bindings, allArgs, site, res, isDefer)
				return
			}
			// an uncontracted callee outside the module: unconstrained results, pointees of its
			// pointer arguments unconstrained; observers still see the call
			x.havocCallObs(st, f, key, target.Name(), site, sig, res, isDefer, allArgs)
			return
		}
	}
	// apply the contract
	vals := x.applyContract(st, f, con, allArgs, sig, site, ins)
	x.bind(st, f, res, resultVal(sig, vals), isDefer)
}

func (x *Explorer) onStack(st *State, fn *ssa.Function) bool {
	for _, fr := range st.frames {
		if fr.fn == fn {
			return true
		}
	}
	return false
}

// havocPointees: an unknown callee may write through the pointers it is given - every object
// directly pointed to by an argument becomes unconstrained (one level; deeper reachability is
// not followed and is part of the listed trust in unmodelled calls).
func (x *Explorer) havocPointees(st *State, args []Val) {
	for _, a := range args {
		var p VPtr
		switch v := a.(type) {
		case VPtr:
			p = v
		case VIface:
			if dp, ok := v.Dyn.(VPtr); ok {
				p = dp
			} else {
				continue
			}
		default:
			continue
		}
		if p.Alloc != nil || p.Ref == nil {
			continue
		}
		if p.Ref.IsLit() && p.Ref.Int.Sign() == 0 {
			continue
		}
		t := st.eng.pointee(p)
		if _, isIface := t.Underlying().(*types.Interface); isIface {
			continue
		}
		before := copyHeap(st.heap)
		st.store(p, st.freshVal(t, "havoc_arg"))
		// what an uncontracted callee does to its pointer arguments is not charged to the
		// caller's frame (the object may well be one the callee allocated itself)
		if _, idx := st.eng.heapAddr(p); len(idx) > 0 {
			for name, cur := range st.heap {
				if before[name] != cur {
					if st.dry && st.unchargedSeen != nil {
						st.unchargedSeen[name] = true
					}
					st.uncharged = append(st.uncharged[:len(st.uncharged):len(st.uncharged)], unchargedRef{name, idx[0]})
				}
			}
		}
	}
}

type unchargedRef struct {
	name string
	ref  *Term
}

func (st *State) unchargedGuard(name string, r *Term) *Term {
	var g []*Term
	for _, u := range st.uncharged {
		if u.name == name {
			g = append(g, Neq(r, u.ref))
		}
	}
	return And(g...)
}

func (x *Explorer) havocCall(st *State, f *Frame, key string, sig *types.Signature, res ssa.Value, isDefer bool) {
	if !st.dry {
		x.unmod[key]++
	}
	vals := make([]Val, sig.Results().Len())
	for i := range vals {
		vals[i] = st.freshVal(sig.Results().At(i).Type(), "havoc_"+shortKey(key))
	}
	x.bind(st, f, res, resultVal(sig, vals), isDefer)
}

// havocCallObs is havocCall for calls through function values; observers can name them by the
// variable or field the function value was read from.
func (x *Explorer) havocCallObs(st *State, f *Frame, key, name, site string, sig *types.Signature, res ssa.Value, isDefer bool, args []Val) {
	if !st.dry {
		x.unmod[key]++
	}
	snaps := x.argSnapshots(st, args)
	x.havocPointees(st, args)
	vals := make([]Val, sig.Results().Len())
	for i := range vals {
		vals[i] = x.freshResult(st, sig.Results().At(i).Type(), "havoc_"+shortKey(name))
	}
	x.observe(st, f, name, site, args, vals, snaps)
	x.bind(st, f, res, resultVal(sig, vals), isDefer)
}

func shortKey(k string) string {
	if i := strings.LastIndex(k, "/"); i >= 0 {
		k = k[i+1:]
	}
	return strings.Map(func(r rune) rune {
		if r == ' ' || r == '|' || r == '(' || r == ')' || r == '*' {
			return '_'
		}
		return r
	}, k)
}

// funcValueContract finds a sub-contract for a call through a function-typed parameter or
// a function-typed struct field.
func (x *Explorer) funcValueContract(f *Frame, v ssa.Value) *Contract {
	switch a := v.(type) {
	case *ssa.UnOp:
		switch src := a.X.(type) {
		case *ssa.Alloc: // spilled parameter
			if f.contract != nil {
				if sc := f.contract.SubParams[src.Comment]; sc != nil {
					return sc
				}
			}
			// contract of the function whose body this frame runs (inlined callee with sub-params)
			if cc := x.eng.db.Contracts[x.eng.fnKey(f.fn)]; cc != nil {
				if sc := cc.SubParams[src.Comment]; sc != nil {
					return sc
				}
			}
		case *ssa.FieldAddr:
			pt, ok := src.X.Type().Underlying().(*types.Pointer)
			if !ok {
				return nil
			}
			n := namedOf(pt.Elem())
			if n == nil || n.Obj().Pkg() == nil {
				return nil
			}
			key := n.Obj().Pkg().Path() + "." + n.Obj().Name() + "." + structFieldName(src)
			return x.eng.db.Contracts[key]
		}
	case *ssa.Parameter:
		if f.contract != nil {
			return f.contract.SubParams[a.Name()]
		}
	}
	return nil
}

// ---- inlining -----------------------------------------------------------------------

func (x *Explorer) inline(st *State, f *Frame, fn *ssa.Function, bindings, args []Val, site string, res ssa.Value, isDefer bool) {
	if !st.dry {
		x.inlined[x.eng.fnKey(fn)]++
	}
	nf := &Frame{fn: fn, env: map[ssa.Value]Val{}, cells: map[*ssa.Alloc]Val{}, block: fn.Blocks[0], free: bindings,
		loops: map[*ssa.BasicBlock]*activeLoop{}, name: site, callOrd: map[string]int{}}
	if len(args) != len(fn.Params) {
		x.fail("inline %s: %d args for %d params", fn, len(args), len(fn.Params))
	}
	for i, p := range fn.Params {
		nf.env[p] = args[i]
	}
	nf.retRes = res
	nf.retDefer = isDefer
	nf.inArgs = args
	nf.inSnaps = x.argSnapshots(st, args)
	st.frames = append(st.frames, nf)
}

func (x *Explorer) doReturn(st *State, f *Frame, r *ssa.Return) {
	vals := make([]Val, len(r.Results))
	for i, rv := range r.Results {
		vals[i] = x.val(st, f, rv)
	}
	if st.dry && len(st.frames) == st.dryDepth {
		st.dead = true
		return
	}
	if len(st.frames) == 1 {
		x.atReturn(st, f, r, vals)
		st.frames = nil
		return
	}
	st.frames = st.frames[:len(st.frames)-1]
	caller := st.top()
	var v Val
	switch len(vals) {
	case 0:
	case 1:
		v = vals[0]
	default:
		v = VTuple{E: vals}
	}
	// observers see a call that was explored inline when it returns
	if f.inArgs != nil {
		x.observe(st, caller, calleeNameOf(f.fn), f.name, f.inArgs, vals, f.inSnaps)
	}
	x.bind(st, caller, f.retRes, v, f.retDefer)
}

func calleeNameOf(fn *ssa.Function) string {
	if o := fn.Origin(); o != nil {
		return o.Name()
	}
	return fn.Name()
}

// atReturn emits the postconditions of the function under contract.
func (x *Explorer) atReturn(st *State, f *Frame, r *ssa.Return, vals []Val) {
	if st.dry || f.contract == nil {
		return
	}
	site := x.eng.siteOf(f, r)
	env := x.specEnv(st, f, f.contract)
	env.bindResults(f.contract, f.fn.Signature, vals)
	env.entryParams = true
	for _, cl := range f.contract.Ensures {
		if g, ok := x.goalOf(st, env, cl, "post", site); ok {
			x.emit(st, "post", cl.Label, site, g, cl.Where)
		}
	}
	for i, v := range vals {
		if i < len(f.contract.Results) && f.contract.Fresh[f.contract.Results[i]] {
			if sl, ok := v.(VSlice); ok {
				x.emit(st, "fresh", f.contract.Results[i], site, Or(Eq(sl.Arr, IntLit(0)), And(Ge(sl.Arr, IntLit(refBase)), Lt(sl.Arr, IntLit(1000000000)))), filepath.Base(f.contract.File))
			}
			if p, ok := v.(VPtr); ok && p.Alloc == nil {
				x.emit(st, "fresh", f.contract.Results[i], site, Or(Eq(p.Ref, IntLit(0)), And(Ge(p.Ref, IntLit(refBase)), Lt(p.Ref, IntLit(1000000000)))), filepath.Base(f.contract.File))
			}
		}
	}
	x.frameObligations(st, f, site, env)
	// reachability of this return (vacuity guard)
	x.obls = append(x.obls, &Obligation{Func: x.fnKey, Name: "cover[reach]", Kind: "cover", Label: "reach", Cover: true,
		Assume: append(append([]*Term{}, st.facts...), st.pc...), Goal: tFalse, Trail: strings.Join(st.trail, ";"), Where: x.eng.posStr(r.Pos())})
}

// ---- contract application at a call site -------------------------------------------

func (x *Explorer) applyContract(st *State, f *Frame, con *Contract, allArgs []Val, sig *types.Signature, site string, ins ssa.Instruction) []Val {
	con.Used = true
	if !st.dry && (con.Trusted || !x.eng.hasBody(con)) {
		x.assumed[con.Key]++
	}
	env := &SpecEnv{x: x, st: st, vars: map[string]Val{}, con: con, pkg: con.Pkg, frame: f}
	names := con.Params
	a := allArgs
	if con.RecvType != "" && len(allArgs) == len(con.Params)+1 {
		if con.Recv != "" {
			env.vars[con.Recv] = allArgs[0]
		}
		a = allArgs[1:]
	}
	if len(names) != len(a) {
		x.fail("contract %s (%s:%d): header lists %d parameters, call has %d", con.Key, con.File, con.Line, len(names), len(a))
	}
	for i, n := range names {
		if n != "_" {
			env.vars[n] = a[i]
		}
	}
	env.oldVars = env.vars
	env.callK = int64(refBase + x.nextRef)
	snaps := x.argSnapshots(st, allArgs)
	// a method with a pointer receiver is verified for a non-nil receiver only: the call has
	// to establish that (nothing is known about the callee on a nil receiver)
	if con.RecvType != "" && len(allArgs) > 0 && x.eng.hasBody(con) {
		if rp, ok := allArgs[0].(VPtr); ok && rp.Alloc == nil && rp.Ref != nil && !(rp.Ref.IsLit() && rp.Ref.Int.Sign() != 0) {
			g := Neq(rp.Ref, IntLit(0))
			x.emit(st, "pre", "receiver-non-nil", site, g, filepath.Base(con.File))
			st.assume(g)
		}
	}
	// preconditions
	for _, cl := range con.Requires {
		if g, ok := x.goalOf(st, env, cl, "pre", site); ok {
			x.emit(st, "pre", cl.Label, site, g, cl.Where)
			st.assume(g)
		}
	}
	// frame
	old := make(map[string]*Term, len(st.heap))
	for k, v := range st.heap {
		old[k] = v
	}
	env.oldHeap = old
	durable := false
	for _, m := range con.Modifies {
		if m.Heap != "" {
			env.havocHeap(m.Heap)
		} else {
			env.havocLoc(m.Expr)
		}
		if m.Durable {
			durable = true
		}
	}
	// results
	vals := make([]Val, sig.Results().Len())
	for i := range vals {
		hint := fmt.Sprintf("r%d_%s", i, con.FuncName)
		x.freshSliceResult = i < len(con.Results) && con.Fresh[con.Results[i]]
		vals[i] = x.freshResult(st, sig.Results().At(i).Type(), hint)
		x.freshSliceResult = false
		if i < len(con.Results) && con.Fresh[con.Results[i]] {
			if pt, ok := sig.Results().At(i).Type().Underlying().(*types.Pointer); ok {
				// a newly allocated object (or nil): distinct from everything that exists
				isNil := st.freshSym(hint+"_nil", SBool)
				vals[i] = VPtr{Ref: Ite(isNil, IntLit(0), st.newRef()), Root: pt.Elem()}
			} else if _, ok := sig.Results().At(i).Type().Underlying().(*types.Interface); ok {
				isNil := st.freshSym(hint+"_nil", SBool)
				tag := st.freshInt(hint + "_tag")
				st.addFact(Gt(tag, IntLit(0)))
				vals[i] = VIface{Tag: Ite(isNil, IntLit(0), tag), Val: Ite(isNil, IntLit(0), st.newRef())}
			}
		}
	}
	env.bindResults(con, sig, vals)
	for _, cl := range con.Ensures {
		if mentionsObserver(cl.Expr, con) {
			continue // speaks about the callee's own call history: only meaningful inside the callee
		}
		env.goal = false
		st.assume(env.evalBool(cl.Expr))
	}
	for _, cl := range con.Assumes {
		env.goal = false
		st.assume(env.evalBool(cl.Expr))
		if !st.dry {
			x.assumed["clause ["+cl.Label+"] of "+con.Key+" is assumed, not proved: "+cl.Text]++
		}
	}
	x.observe(st, f, con.FuncName, site, allArgs, vals, snaps)
	if !st.dry && !st.dead {
		// vacuity guard: the assumed clauses must leave this path (or another one) alive
		x.obls = append(x.obls, &Obligation{Func: x.fnKey, Name: "cover[after " + site + "]", Kind: "cover", Label: "after " + site, Cover: true,
			Assume: append(append([]*Term{}, st.facts...), st.pc...), Goal: tFalse, Trail: strings.Join(st.trail, ";"), Where: x.eng.posStr(ins.Pos())})
	}
	if durable {
		x.crashPoint(st, site)
	}
	return vals
}

// freshResult: like freshVal, but slices get their own fresh backing array.
func (x *Explorer) freshResult(st *State, t types.Type, hint string) Val {
	if s, ok := t.Underlying().(*types.Slice); ok {
		if _, isTP := t.(*types.TypeParam); !isTP {
			fs := x.freshSlice(st, s.Elem(), hint)
			// may also be nil
			isNil := st.freshSym(hint+"_nil", SBool)
			arr, off := fs.Arr, IntLit(0)
			if !x.freshSliceResult {
				// nothing says the result is newly allocated: it may be (part of) an array that
				// already exists - an argument, a field - so later writes there show through
				alias := st.freshSym(hint+"_alias", SBool)
				old := st.freshInt(hint + "_aliased")
				ooff := st.freshInt(hint + "_aliasoff")
				st.addFact(And(Gt(old, IntLit(0)), st.refBound(old), Ge(ooff, IntLit(0)), Lt(ooff, Pow2(62))))
				arr, off = Ite(alias, old, fs.Arr), Ite(alias, ooff, IntLit(0))
			}
			return VSlice{Arr: Ite(isNil, IntLit(0), arr), Off: Ite(isNil, IntLit(0), off), Len: Ite(isNil, IntLit(0), fs.Len), Cap: Ite(isNil, IntLit(0), fs.Cap), Elem: fs.Elem}
		}
	}
	return st.freshVal(t, hint)
}

func (e *Engine) hasBody(con *Contract) bool {
	fn := e.fnByKey[con.Key]
	return fn != nil && fn.Blocks != nil && e.inModule(fn)
}

// observe records ghost facts about a call for `observe` clauses of the function under contract.
func (x *Explorer) observe(st *State, f *Frame, callee, site string, args, results []Val, snaps []*Term) {
	top := st.frames[0]
	if top.contract == nil {
		return
	}
	if f != top {
		// calls made from inlined helpers, counted per callee name along the path
		n := make(map[string]int, len(st.inlCallSeen)+1)
		for k, v := range st.inlCallSeen {
			n[k] = v
		}
		n[callee]++
		st.inlCallSeen = n
	}
	for _, o := range top.contract.Observes {
		if o.Callee != callee {
			continue
		}
		if o.Ord != 0 && f == top && !strings.HasSuffix(site, fmt.Sprintf("%s#%d", callee, o.Ord)) {
			continue
		}
		if o.Ord != 0 && f != top {
			// `call F@n` names the n-th call site of F in the function itself. When the function
			// has no call site of F at all any more - the calls were moved into helpers that are
			// explored inline - the n-th call of F made from such helpers on this path is meant.
			if x.eng.staticCallSites(top.fn, callee) != 0 {
				continue
			}
			if st.inlCallSeen == nil || st.inlCallSeen[callee] != o.Ord {
				continue
			}
		}
		c, _ := st.ghosts[o.Name+".count"].(VInt)
		if c.T == nil {
			c.T = IntLit(0)
		}
		st.ghosts[o.Name+".count"] = VInt{T: Add(c.T, IntLit(1))}
		st.ghosts[o.Name] = VInt{T: tTrue}
		st.obsSeq++
		st.ghosts[o.Name+".seq"] = VInt{T: IntLit(int64(st.obsSeq))}
		for i, a := range args {
			st.ghosts[fmt.Sprintf("%s.arg%d", o.Name, i)] = a
			// byte strings: the contents at the time of the call (name.argKval)
			if i < len(snaps) && snaps[i] != nil {
				st.ghosts[fmt.Sprintf("%s.arg%dval", o.Name, i)] = VInt{T: snaps[i]}
			}
			// name.argKout: what the callee left in the object a pointer argument points to
			var pp *VPtr
			switch v := a.(type) {
			case VPtr:
				pp = &v
			case VIface:
				if dp, ok := v.Dyn.(VPtr); ok {
					pp = &dp
				}
			}
			if pp != nil && pp.Alloc == nil && pp.Ref != nil && len(pp.Path) == 0 && !(pp.Ref.IsLit() && pp.Ref.Int.Sign() == 0) {
				if t := st.eng.pointee(*pp); t != nil {
					if _, isIface := t.Underlying().(*types.Interface); !isIface {
						func() {
							defer func() { _ = recover() }()
							st.ghosts[fmt.Sprintf("%s.arg%dout", o.Name, i)] = st.load(*pp)
						}()
					}
				}
			}
		}
		for i, r := range results {
			st.ghosts[fmt.Sprintf("%s.res%d", o.Name, i)] = r
		}
	}
}

// argSnapshots: the contents of byte-string arguments at the time of the call (before the callee's
// effects are applied), for the observers' argKval.
func (x *Explorer) argSnapshots(st *State, args []Val) []*Term {
	out := make([]*Term, len(args))
	for i, a := range args {
		if sl, ok := a.(VSlice); ok {
			if b, isB := sl.Elem.Underlying().(*types.Basic); isB && (b.Kind() == types.Uint8 || b.Kind() == types.Byte) {
				out[i] = st.bval(sl)
			}
		}
	}
	return out
}

// crashPoint: the process may die right after a durable write.
func (x *Explorer) crashPoint(st *State, site string) {
	top := st.frames[0]
	if st.dry || top.contract == nil || len(top.contract.CrashInv) == 0 {
		return
	}
	env := x.specEnv(st, top, top.contract)
	for _, cl := range top.contract.CrashInv {
		if g, ok := x.goalOf(st, env, cl, "crash", "after "+site); ok {
			x.emit(st, "crash", cl.Label, "after "+site, g, cl.Where)
		}
	}
}

func mentionsObserver(e *SExpr, con *Contract) bool {
	if e == nil || len(con.Observes) == 0 {
		return false
	}
	if e.Kind == "ident" {
		for _, o := range con.Observes {
			if o.Name == e.Name {
				return true
			}
		}
	}
	for _, a := range e.Args {
		if mentionsObserver(a, con) {
			return true
		}
	}
	return false
}

// frameFormula states, for one heap array and one object reference r, that the object's
// contents equal the pre-state contents except at the locations listed in mods. Objects
// allocated during the call (references in [refBase, 10^9)) are not constrained.
func frameFormula(name string, cur, old *Term, mods []Loc, r *Term) *Term {
	pre := Or(Lt(r, IntLit(refBase)), Ge(r, IntLit(1000000000)))
	// reference 0 is nil: no object lives there (a "write" to the array of a nil slice is a write of nothing)
	guard := []*Term{pre, Neq(r, IntLit(0))}
	innerNew := Select(cur, r)
	patched := Select(old, r)
	for _, m := range mods {
		if m.Name != name && !(len(m.Idx) == 0 && strings.HasPrefix(name, m.Name+"#")) {
			continue
		}
		switch {
		case len(m.Idx) == 0:
			return tTrue // the whole array is released
		case len(m.Idx) == 1:
			guard = append(guard, Neq(r, m.Idx[0]))
		case len(m.Idx) == 2 && IsArrSort(innerNew.Sort):
			patched = Ite(Eq(r, m.Idx[0]), Store(patched, m.Idx[1], Select(innerNew, m.Idx[1])), patched)
		default:
			guard = append(guard, Neq(r, m.Idx[0])) // deeper location: the whole object is released
		}
	}
	return Implies(And(guard...), Eq(innerNew, patched))
}

func (x *Explorer) contractMods(st *State, f *Frame) []Loc {
	con := f.contract
	if con == nil {
		return nil
	}
	env := x.specEnv(st, f, con)
	env.vars = map[string]Val{}
	var mods []Loc
	env.inOld = true
	env.withHeap(copyHeap(st.oldHeap), func() {
		for _, m := range con.Modifies {
			if m.Heap != "" {
				mods = append(mods, Loc{Name: m.Heap})
				continue
			}
			mods = append(mods, env.locs(m.Expr)...)
		}
	})
	env.inOld = false
	return mods
}

// frameObligations: every heap array written on this path may differ from the pre-state only
// at locations listed in the contract's modifies clauses or in objects allocated by the call.
func (x *Explorer) frameObligations(st *State, f *Frame, site string, env *SpecEnv) {
	con := f.contract
	if con == nil || st.dry {
		return
	}
	mods := x.contractMods(st, f)
	for _, name := range sortedKeys(st.written) {
		cur := st.heap[name]
		if cur == nil || strings.HasPrefix(name, "map:") {
			continue // Go maps are not framed (engine note)
		}
		if st.unframed[name] {
			continue // written by an uncontracted callee inside a loop (engine note)
		}
		old := st.oldHeap[name]
		if old == nil {
			old = Sym("H0:"+name, cur.Sort)
		}
		if cur == old || onlyFreshStores(cur, old) {
			continue
		}
		r := st.freshInt("frame_r")
		st.skolems = append(st.skolems, r)
		x.emit(st, "frame", name, site, Implies(st.unchargedGuard(name, r), frameFormula(name, cur, old, mods, r)), filepath.Base(con.File))
		st.skolems = st.skolems[:len(st.skolems)-1]
	}
}

func copyHeap(h map[string]*Term) map[string]*Term {
	n := make(map[string]*Term, len(h))
	for k, v := range h {
		n[k] = v
	}
	return n
}

// onlyFreshStores: cur is old updated only at literal references of objects allocated during
// the call - the frame condition then holds by construction.
func onlyFreshStores(cur, old *Term) bool {
	for depth := 0; depth < 100000; depth++ {
		if cur == old {
			return true
		}
		if cur.Op != "store" {
			return cur.Op == old.Op && cur.Op == "sym" && cur.Name == old.Name
		}
		i := cur.Args[1]
		if !i.IsLit() || !i.Int.IsInt64() || i.Int.Int64() < refBase || i.Int.Int64() >= 1000000000 {
			return false
		}
		cur = cur.Args[0]
	}
	return false
}

// staticCallSites: how many call sites of a callee (by name) the function's own body has.
func (e *Engine) staticCallSites(fn *ssa.Function, callee string) int {
	n := 0
	for _, b := range fn.Blocks {
		for _, i := range b.Instrs {
			if ci, ok := i.(ssa.CallInstruction); ok && calleeName(ci.Common()) == callee {
				n++
			}
		}
	}
	return n
}
