package main

// Path-by-path symbolic execution of go/ssa naive form.

import (
	"fmt"
	"go/constant"
	"go/token"
	"go/types"
	"math/big"
	"os"
	"strings"

	"golang.org/x/tools/go/ssa"
)

type Obligation struct {
	AKey    string // identifies the assumption set (obligations emitted from the same state share it)
	At      string // source position of the site
	Func    string
	Name    string // kind[label]@site
	Kind    string
	Label   string
	Where   string
	Trail   string
	Assume  []*Term
	Goal    *Term
	Skolems []*Term
	Cover   bool // must be satisfiable (vacuity guard)
	Res     *SolveResult
	Query   string
}

type Explorer struct {
	eng              *Engine
	fn               *ssa.Function
	con              *Contract
	fnKey            string
	work             []*State
	obls             []*Obligation
	fresh            int
	nextRef          int
	freshSliceResult bool // applyContract: the result being created is declared fresh
	cellSeq          int
	notes            map[string]int
	unmod            map[string]int // unmodelled calls
	assumed          map[string]int // assumed (trusted / interface) contracts used
	paths            int
	errs             []string
	inlined          map[string]int
	forkCount        map[string]int
	atCallSeen       map[string]bool // callees of `at call` clauses that some path reached
	bounded          map[string]int  // bounded stand-ins used while exploring this function
}

type engineError struct{ msg string }

func (x *Explorer) fail(format string, a ...any) {
	panic(engineError{fmt.Sprintf(format, a...)})
}

func (x *Explorer) emit(st *State, kind, label, site string, goal *Term, where string) {
	if st.dry || st.dead {
		return
	}
	at := ""
	if len(st.frames) > 0 {
		f := st.frames[0]
		if f.pc < len(f.block.Instrs) {
			at = x.eng.posStr(f.block.Instrs[f.pc].Pos())
			if at == "?" {
				for i := f.pc; i >= 0; i-- {
					if p := f.block.Instrs[i].Pos(); p.IsValid() {
						at = x.eng.posStr(p)
						break
					}
				}
			}
		}
	}
	defer func() {
		if n := len(x.obls); n > 0 && x.obls[n-1].At == "" {
			x.obls[n-1].At = at
		}
	}()
	name := kind + "[" + label + "]"
	if site != "" {
		name += "@" + site
	}
	if goal.IsTrue() {
		// trivially discharged; still counted
		x.obls = append(x.obls, &Obligation{Func: x.fnKey, Name: name, Kind: kind, Label: label, Where: where, Goal: goal, Trail: strings.Join(st.trail, ";"),
			Res: &SolveResult{Status: "unsat", Backend: "simplifier"}})
		return
	}
	as := make([]*Term, 0, len(st.pc)+len(st.facts))
	as = append(as, st.facts...)
	as = append(as, st.pc...)
	x.obls = append(x.obls, &Obligation{Func: x.fnKey, Name: name, Kind: kind, Label: label, Where: where, Assume: as, Goal: goal,
		Trail: strings.Join(st.trail, ";"), Skolems: st.skolems, AKey: st.assumeKey()})
}

// check is an implicit run-time check: obligation under nopanic, assumption otherwise.
func (x *Explorer) check(st *State, kind string, cond *Term, ins ssa.Instruction) {
	if cond.IsTrue() {
		return
	}
	if st.nopanic {
		x.emit(st, "nopanic", kind, x.eng.siteOf(st.top(), ins), cond, x.eng.posStr(ins.Pos()))
	}
	st.assume(cond)
}

func (x *Explorer) runAll() {
	for len(x.work) > 0 {
		st := x.work[len(x.work)-1]
		x.work = x.work[:len(x.work)-1]
		x.paths++
		if x.eng.verbose && x.paths%500 == 0 {
			fmt.Fprintf(os.Stderr, "  .. %s: %d paths, %d obligations, %d pending\n", x.fnKey, x.paths, len(x.obls), len(x.work))
		}
		if x.paths > x.eng.maxPaths {
			x.fail("path cap %d exceeded in %s", x.eng.maxPaths, x.fnKey)
		}
		for !st.dead && len(st.frames) > 0 {
			x.step(st)
		}
	}
}

func (x *Explorer) fork(st *State) *State {
	n := st.clone()
	x.work = append(x.work, n)
	return n
}

// ---- values -------------------------------------------------------------------------

func (x *Explorer) constVal(st *State, c *ssa.Const) Val {
	e := x.eng
	t := c.Type()
	if c.Value == nil {
		return e.zeroVal(t)
	}
	if _, ok := t.(*types.TypeParam); ok {
		return VInt{T: st.freshInt("tpconst")}
	}
	switch u := t.Underlying().(type) {
	case *types.Basic:
		switch {
		case u.Info()&types.IsBoolean != 0:
			return VInt{T: BoolLit(constant.BoolVal(c.Value))}
		case u.Info()&types.IsInteger != 0:
			v := constant.ToInt(c.Value)
			if bi, ok := constant.Val(v).(*big.Int); ok {
				return VInt{T: BigLit(bi)}
			}
			i, _ := constant.Int64Val(v)
			return VInt{T: IntLit(i)}
		case u.Info()&types.IsString != 0:
			s := constant.StringVal(c.Value)
			id := IntLit(e.strID(s))
			st.addFact(Eq(UF("strlen", SInt, id), IntLit(int64(len(s)))))
			return VInt{T: id}
		case u.Info()&types.IsFloat != 0:
			return VInt{T: UF("float:"+c.Value.ExactString(), SInt)}
		}
	}
	return VInt{T: st.freshInt("const")}
}

func (x *Explorer) val(st *State, f *Frame, v ssa.Value) Val {
	switch c := v.(type) {
	case *ssa.Const:
		return x.constVal(st, c)
	case *ssa.Global:
		return VPtr{Ref: IntLit(x.eng.globalRef(c)), Root: c.Type().(*types.Pointer).Elem()}
	case *ssa.Function:
		return VFunc{Fn: c}
	case *ssa.FreeVar:
		for i, fv := range f.fn.FreeVars {
			if fv == c {
				return f.free[i]
			}
		}
	case *ssa.Builtin:
		return VFunc{}
	}
	r, ok := f.env[v]
	if !ok {
		x.fail("no value for %s (%T) in %s", v.Name(), v, f.fn)
	}
	return r
}

func asInt(v Val) *Term {
	switch t := v.(type) {
	case VInt:
		return t.T
	case VPtr:
		if t.Ref != nil && len(t.Path) == 0 {
			return t.Ref
		}
	case VMap:
		return t.Ref
	}
	panic(fmt.Sprintf("asInt %T", v))
}

// ---- one step -----------------------------------------------------------------------

func (x *Explorer) step(st *State) {
	f := st.top()
	if f.pc >= len(f.block.Instrs) {
		x.fail("fell off block %d of %s", f.block.Index, f.fn)
	}
	ins := f.block.Instrs[f.pc]
	switch i := ins.(type) {
	case *ssa.DebugRef:
		f.pc++
	case *ssa.Alloc:
		x.doAlloc(st, f, i)
		f.pc++
	case *ssa.Store:
		p, ok := x.val(st, f, i.Addr).(VPtr)
		if !ok {
			x.fail("store through non-pointer")
		}
		x.nilCheck(st, p, i)
		st.store(p, x.coerce(st, x.val(st, f, i.Val), i.Val.Type(), st.eng.pointee(p)))
		f.pc++
	case *ssa.UnOp:
		f.env[i] = x.unop(st, f, i)
		f.pc++
	case *ssa.BinOp:
		f.env[i] = x.binop(st, i.Op, x.val(st, f, i.X), x.val(st, f, i.Y), i.X.Type(), i.Type(), i)
		f.pc++
	case *ssa.FieldAddr:
		p := x.val(st, f, i.X).(VPtr)
		x.nilCheck(st, p, i)
		np := p
		np.Path = append(append([]PathEl{}, p.Path...), PathEl{Field: i.Field})
		f.env[i] = np
		f.pc++
	case *ssa.Field:
		s := x.val(st, f, i.X).(VStruct)
		f.env[i] = s.F[i.Field]
		f.pc++
	case *ssa.IndexAddr:
		f.env[i] = x.indexAddr(st, f, i)
		f.pc++
	case *ssa.Index:
		f.env[i] = x.index(st, f, i)
		f.pc++
	case *ssa.Lookup:
		f.env[i] = x.lookup(st, f, i)
		f.pc++
	case *ssa.MapUpdate:
		x.mapUpdate(st, f, i)
		f.pc++
	case *ssa.Slice:
		f.env[i] = x.slice(st, f, i)
		f.pc++
	case *ssa.MakeSlice:
		n := asInt(x.val(st, f, i.Len))
		c := asInt(x.val(st, f, i.Cap))
		x.check(st, "makeslice", And(Ge(n, IntLit(0)), Ge(c, n)), i)
		el := i.Type().Underlying().(*types.Slice).Elem()
		f.env[i] = x.newSlice(st, el, n, c, true)
		f.pc++
	case *ssa.MakeMap:
		ref := st.newRef()
		mt := i.Type().Underlying().(*types.Map)
		m := VMap{Ref: ref, T: mt}
		x.mapInit(st, m)
		f.env[i] = m
		f.pc++
	case *ssa.MakeChan:
		ref := st.newRef()
		f.env[i] = VInt{T: ref}
		// the capacity is a fact about the channel value (chanCap in contracts)
		st.assume(Eq(UF("chancap", SInt, ref), asInt(x.val(st, f, i.Size))))
		f.pc++
	case *ssa.MakeInterface:
		f.env[i] = x.makeIface(st, x.val(st, f, i.X), i.X.Type())
		f.pc++
	case *ssa.MakeClosure:
		fn := i.Fn.(*ssa.Function)
		b := make([]Val, len(i.Bindings))
		for k, bv := range i.Bindings {
			b[k] = x.val(st, f, bv)
		}
		f.env[i] = VFunc{Fn: fn, Bind: b}
		f.pc++
	case *ssa.ChangeType:
		f.env[i] = x.coerce(st, x.val(st, f, i.X), i.X.Type(), i.Type())
		f.pc++
	case *ssa.ChangeInterface:
		f.env[i] = x.val(st, f, i.X)
		f.pc++
	case *ssa.Convert:
		f.env[i] = x.convert(st, x.val(st, f, i.X), i.X.Type(), i.Type())
		f.pc++
	case *ssa.MultiConvert:
		f.env[i] = x.convert(st, x.val(st, f, i.X), i.X.Type(), i.Type())
		f.pc++
	case *ssa.SliceToArrayPointer:
		s := x.val(st, f, i.X).(VSlice)
		// the conversion panics when the slice is shorter than the array
		if pt, ok := i.Type().Underlying().(*types.Pointer); ok {
			if at, ok := pt.Elem().Underlying().(*types.Array); ok && at.Len() > 0 {
				x.check(st, "slice-to-array", Ge(s.Len, IntLit(at.Len())), i)
			}
		}
		f.env[i] = VPtr{Ref: s.Arr, Root: types.NewSlice(s.Elem), Path: nil}
		st.note("slice-to-array-pointer")
		f.pc++
	case *ssa.TypeAssert:
		x.typeAssert(st, f, i)
		f.pc++
	case *ssa.Extract:
		tu := x.val(st, f, i.Tuple).(VTuple)
		f.env[i] = tu.E[i.Index]
		f.pc++
	case *ssa.Phi:
		found := false
		for k, p := range f.block.Preds {
			if p == f.prev {
				f.env[i] = x.val(st, f, i.Edges[k])
				found = true
				break
			}
		}
		if !found {
			x.fail("phi without matching predecessor in %s", f.fn)
		}
		f.pc++
	case *ssa.Call:
		x.doCall(st, f, i, i.Common(), i)
	case *ssa.Go:
		st.note("go-statement-not-executed: " + calleeName(i.Common()))
		f.pc++
	case *ssa.Defer:
		c := i.Common()
		d := deferred{call: i}
		if !c.IsInvoke() {
			d.fn = x.val(st, f, c.Value)
		} else {
			d.fn = x.val(st, f, c.Value)
		}
		for _, a := range c.Args {
			d.args = append(d.args, x.val(st, f, a))
		}
		f.defers = append(f.defers, d)
		f.pc++
	case *ssa.RunDefers:
		if len(f.defers) == 0 {
			f.pc++
			return
		}
		d := f.defers[len(f.defers)-1]
		f.defers = f.defers[:len(f.defers)-1]
		x.doCallVals(st, f, d.call, d.call.Common(), nil, d.fn, d.args, true)
	case *ssa.If:
		c := asInt(x.val(st, f, i.Cond))
		tb, fb := f.block.Succs[0], f.block.Succs[1]
		switch {
		case c.IsTrue():
			x.jump(st, f, tb)
		case c.IsFalse():
			x.jump(st, f, fb)
		default:
			// a condition that is literally on the path already does not fork
			cs, ncs := c.String(), Not(c).String()
			known := 0
			for k := len(st.pc) - 1; k >= 0 && k >= len(st.pc)-200; k-- {
				ps := st.pc[k].String()
				if ps == cs {
					known = 1
					break
				}
				if ps == ncs {
					known = -1
					break
				}
			}
			if known == 1 {
				x.jump(st, f, tb)
				return
			}
			if known == -1 {
				x.jump(st, f, fb)
				return
			}
			if x.eng.verbose {
				x.forkCount[fmt.Sprintf("%s %s", f.fn.Name(), x.eng.posStr(i.Cond.Pos()))]++
			}
			n := x.fork(st)
			n.assume(Not(c))
			n.trail = append(n.trail, x.branchTag(f, i, false))
			x.jump(n, n.top(), fb)
			st.assume(c)
			st.trail = append(st.trail, x.branchTag(f, i, true))
			x.jump(st, f, tb)
		}
	case *ssa.Jump:
		x.jump(st, f, f.block.Succs[0])
	case *ssa.Return:
		x.doReturn(st, f, i)
	case *ssa.Panic:
		if st.nopanic {
			x.emit(st, "nopanic", "panic", x.eng.siteOf(f, i), tFalse, x.eng.posStr(i.Pos()))
		}
		st.dead = true
	case *ssa.Select:
		x.doSelect(st, f, i)
	case *ssa.Send:
		x.doSend(st, f, i)
		f.pc++
	case *ssa.Range:
		f.env[i] = VTuple{E: []Val{x.val(st, f, i.X)}}
		f.pc++
	case *ssa.Next:
		x.doNext(st, f, i)
		f.pc++
	default:
		x.fail("unsupported instruction %T in %s", ins, f.fn)
	}
}

func (x *Explorer) nilCheck(st *State, p VPtr, ins ssa.Instruction) {
	if p.Alloc != nil || p.Ref.IsLit() && p.Ref.Int.Sign() != 0 {
		return
	}
	x.check(st, "nil-deref", Neq(p.Ref, IntLit(0)), ins)
}

func (x *Explorer) doAlloc(st *State, f *Frame, a *ssa.Alloc) {
	t := a.Type().(*types.Pointer).Elem()
	if !a.Heap {
		f.cells[a] = st.eng.zeroVal(t)
		st.x.cellSeq++
		if f.cellOrd == nil {
			f.cellOrd = map[*ssa.Alloc]int{}
		}
		f.cellOrd[a] = st.x.cellSeq // shared between forks on purpose: only the relative order matters
		f.env[a] = VPtr{Alloc: a, Frame: len(st.frames) - 1, Root: t}
		return
	}
	ref := st.newRef()
	p := VPtr{Ref: ref, Root: t}
	x.zeroInit(st, p, t)
	f.env[a] = p
}

func (x *Explorer) zeroInit(st *State, p VPtr, t types.Type) {
	if at, ok := t.Underlying().(*types.Array); ok && len(p.Path) == 0 {
		// array object: element heaps get a constant-zero row
		prefix, _ := st.eng.heapAddr(p)
		for _, l := range st.eng.leaves(at.Elem()) {
			name := prefix + l.Path
			arr := st.heapGet(name, ArrSort(ArrSort(l.Sort)))
			st.heapSet(name, Store(arr, p.Ref, zeroOf(ArrSort(l.Sort))))
		}
		return
	}
	st.heapStore(p, t, st.eng.zeroVal(t))
}

func (x *Explorer) newSlice(st *State, elem types.Type, n, c *Term, zero bool) VSlice {
	ref := st.newRef()
	if zero {
		prefix := "[]" + st.eng.typeKey(elem)
		for _, l := range st.eng.leaves(elem) {
			name := prefix + l.Path
			arr := st.heapGet(name, ArrSort(ArrSort(l.Sort)))
			st.heapSet(name, Store(arr, ref, zeroOf(ArrSort(l.Sort))))
		}
	}
	return VSlice{Arr: ref, Off: IntLit(0), Len: n, Cap: c, Elem: elem}
}

// freshSliceContents gives a fresh slice unconstrained contents.
func (x *Explorer) freshSlice(st *State, elem types.Type, hint string) VSlice {
	ref := st.newRef()
	prefix := "[]" + st.eng.typeKey(elem)
	for _, l := range st.eng.leaves(elem) {
		name := prefix + l.Path
		arr := st.heapGet(name, ArrSort(ArrSort(l.Sort)))
		st.heapSet(name, Store(arr, ref, st.freshSym(hint+"_elems"+l.Path, ArrSort(l.Sort))))
	}
	n := st.freshInt(hint + "_len")
	c := st.freshInt(hint + "_cap")
	s := VSlice{Arr: ref, Off: IntLit(0), Len: n, Cap: c, Elem: elem}
	st.typeFacts(s, types.NewSlice(elem))
	return s
}

func (x *Explorer) jump(st *State, f *Frame, to *ssa.BasicBlock) {
	from := f.block
	if st.dry && st.dryLoop != nil && len(st.frames) == st.dryDepth && !st.dryLoop.Body[to] {
		st.dead = true // a dry run only explores one loop body
		return
	}
	// leaving loops
	for h := range f.unroll {
		if li := x.eng.loopAt(f.fn, h); li != nil && li.Body[from] && !li.Body[to] {
			nu := make(map[*ssa.BasicBlock]int, len(f.unroll))
			for k, v := range f.unroll {
				if k != h {
					nu[k] = v
				}
			}
			f.unroll = nu
		}
	}
	for h, al := range f.loops {
		if al.info.Body[from] && !al.info.Body[to] {
			delete(f.loops, h)
			if f.contract != nil && len(st.frames) == 1 {
				if cls := f.contract.LoopAfter[x.eng.contractLoopOrd(f, al.info)]; len(cls) > 0 {
					env := x.specEnv(st, f, f.contract)
					for _, cl := range cls {
						if !st.dry {
							if g, ok := x.goalOf(st, env, cl, "after-loop", fmt.Sprintf("loop#%d", x.eng.contractLoopOrd(f, al.info))); ok {
								x.emit(st, "after-loop", cl.Label, fmt.Sprintf("loop#%d", x.eng.contractLoopOrd(f, al.info)), g, cl.Where)
							}
						}
						x.assumeClause(st, env, cl)
					}
				}
			}
		}
	}
	f.prev = from
	f.block = to
	f.pc = 0
	if li := x.eng.loopAt(f.fn, to); li != nil {
		x.atLoopHead(st, f, li)
	}
}

func (x *Explorer) unop(st *State, f *Frame, i *ssa.UnOp) Val {
	v := x.val(st, f, i.X)
	switch i.Op {
	case token.MUL:
		p, ok := v.(VPtr)
		if !ok {
			x.fail("deref of %T", v)
		}
		x.nilCheck(st, p, i)
		if s2a, ok := i.X.(*ssa.SliceToArrayPointer); ok {
			// [N]T(s): the value of the first N elements of s (the length was checked at the conversion)
			if sv, ok := x.val(st, f, s2a.X).(VSlice); ok {
				if at, ok := i.Type().Underlying().(*types.Array); ok {
					return x.arrayOfSlice(st, sv, at)
				}
			}
		}
		r := st.load(p)
		if g, ok := i.X.(*ssa.Global); ok {
			r = x.globalLoad(st, g, r)
		}
		if fv, ok := r.(VFunc); ok && fv.Fn == nil && fv.ID != nil {
			if c, ok := st.closures[fv.ID.String()]; ok {
				r = c
			}
		}
		return r
	case token.NOT:
		return VInt{T: Not(asInt(v))}
	case token.SUB:
		return VInt{T: x.wrap(Sub(IntLit(0), asInt(v)), i.Type())}
	case token.XOR:
		return VInt{T: UF("bitnot", SInt, asInt(v))}
	case token.ARROW:
		x.timerFired(st, st.top(), i.X)
		return x.recv(st, x.chanExprName(st.top(), i.X), i.Type(), i.CommaOk)
	}
	x.fail("unop %s", i.Op)
	return nil
}

// arrayOfSlice: the array value [N]T(s) - a row that agrees with s on its first N elements.
func (x *Explorer) arrayOfSlice(st *State, sv VSlice, at *types.Array) Val {
	names, sorts := x.elemHeaps(st, sv.Elem)
	if len(names) != 1 {
		return x.freshResult(st, at, "s2a")
	}
	arr := st.heapGet(names[0], ArrSort(ArrSort(sorts[0])))
	row := Select(arr, sv.Arr)
	nrow := st.freshSym("s2a_row", ArrSort(sorts[0]))
	n := at.Len()
	if n <= 64 {
		for k := int64(0); k < n; k++ {
			st.addFact(Eq(Select(nrow, IntLit(k)), Select(row, Add(sv.Off, IntLit(k)))))
		}
	} else {
		k := Sym(fmt.Sprintf("s2ak!%d", x.fresh), SInt)
		x.fresh++
		st.assume(Forall([]*Term{k}, Implies(And(Ge(k, IntLit(0)), Lt(k, IntLit(n))), Eq(Select(nrow, k), Select(row, Add(sv.Off, k))))))
	}
	if isByteSlice(types.NewSlice(sv.Elem)) {
		st.addFact(Eq(UF("bval", SInt, nrow, IntLit(0), IntLit(n)), UF("bval", SInt, row, sv.Off, IntLit(n))))
	}
	return VArray{T: at, L: []*Term{nrow}}
}

// globalLoad gives package-level error sentinels a fixed, non-nil identity.
func (x *Explorer) globalLoad(st *State, g *ssa.Global, loaded Val) Val {
	t := g.Type().(*types.Pointer).Elem()
	if types.Identical(t, types.Universe.Lookup("error").Type()) {
		name := g.Pkg.Pkg.Path() + "." + g.Name()
		x.assumed["global error sentinel is immutable and non-nil: "+name]++
		id := IntLit(x.eng.strID("sentinel:" + name))
		st.addFact(Select(UF("errset", ArrSort(SBool), id), id))
		st.addFact(Select(UF("msgset", ArrSort(SBool), id), UF("errmsg", SInt, id))) // a message contains itself
		return VIface{Tag: IntLit(x.eng.typeID(types.NewPointer(t)) + 900000), Val: id}
	}
	return loaded
}

func (x *Explorer) wrap(t *Term, ty types.Type) *Term {
	b, ok := ty.Underlying().(*types.Basic)
	if !ok {
		return t
	}
	var bits uint
	switch b.Kind() {
	case types.Uint8:
		bits = 8
	case types.Uint16:
		bits = 16
	case types.Uint32:
		bits = 32
	case types.Uint64, types.Uint, types.Uintptr:
		bits = 64
	default:
		return t // signed: mathematical (assumption listed in evidence)
	}
	if t.IsLit() {
		return BigLit(new(big.Int).Mod(t.Int, Pow2(bits).Int))
	}
	return Mod(t, Pow2(bits))
}

func (x *Explorer) binop(st *State, op token.Token, a, b Val, opType, resType types.Type, pos ssa.Instruction) Val {
	// comparisons on non-scalars
	if op == token.EQL || op == token.NEQ {
		eq := x.valEq(st, a, b, opType)
		if op == token.NEQ {
			eq = Not(eq)
		}
		return VInt{T: eq}
	}
	ta, tb := asInt(a), asInt(b)
	bt, _ := opType.Underlying().(*types.Basic)
	isStr := bt != nil && bt.Info()&types.IsString != 0
	isFloat := bt != nil && bt.Info()&types.IsFloat != 0
	unsigned := bt != nil && bt.Info()&types.IsUnsigned != 0
	if isFloat {
		switch op {
		case token.LSS, token.LEQ, token.GTR, token.GEQ:
			return VInt{T: UF("f"+op.String(), SBool, ta, tb)}
		}
		return VInt{T: UF("f"+op.String(), SInt, ta, tb)}
	}
	if isStr {
		switch op {
		case token.ADD:
			r := UF("strcat", SInt, ta, tb)
			st.addFact(Eq(UF("strlen", SInt, r), Add(UF("strlen", SInt, ta), UF("strlen", SInt, tb))))
			return VInt{T: r}
		case token.LSS, token.LEQ, token.GTR, token.GEQ:
			return VInt{T: UF("str"+op.String(), SBool, ta, tb)}
		}
	}
	if ta.Sort == SBool {
		switch op {
		case token.AND, token.LAND:
			return VInt{T: And(ta, tb)}
		case token.OR, token.LOR:
			return VInt{T: Or(ta, tb)}
		}
	}
	switch op {
	case token.ADD:
		s := Add(ta, tb)
		if unsigned && !s.IsLit() {
			lim := x.limit(resType)
			return VInt{T: Ite(Lt(s, lim), s, Sub(s, lim))}
		}
		return VInt{T: x.wrap(s, resType)}
	case token.SUB:
		s := Sub(ta, tb)
		if unsigned && !s.IsLit() {
			lim := x.limit(resType)
			return VInt{T: Ite(Ge(ta, tb), s, Add(s, lim))}
		}
		return VInt{T: x.wrap(s, resType)}
	case token.MUL:
		return VInt{T: x.wrap(Mul(ta, tb), resType)}
	case token.QUO:
		x.check(st, "div-by-zero", Neq(tb, IntLit(0)), pos)
		if unsigned || (tb.IsLit() && tb.Int.Sign() > 0 && x.nonneg(ta)) {
			return VInt{T: Div(ta, tb)}
		}
		q := Ite(Ge(ta, IntLit(0)), Ite(Gt(tb, IntLit(0)), Div(ta, tb), Sub(IntLit(0), Div(ta, Sub(IntLit(0), tb)))),
			Ite(Gt(tb, IntLit(0)), Sub(IntLit(0), Div(Sub(IntLit(0), ta), tb)), Div(Sub(IntLit(0), ta), Sub(IntLit(0), tb))))
		return VInt{T: q}
	case token.REM:
		x.check(st, "div-by-zero", Neq(tb, IntLit(0)), pos)
		if unsigned || (tb.IsLit() && tb.Int.Sign() > 0 && x.nonneg(ta)) {
			return VInt{T: Mod(ta, tb)}
		}
		r := Ite(Ge(ta, IntLit(0)), Mod(ta, tb), Sub(IntLit(0), Mod(Sub(IntLit(0), ta), tb)))
		return VInt{T: r}
	case token.LSS:
		return VInt{T: Lt(ta, tb)}
	case token.LEQ:
		return VInt{T: Le(ta, tb)}
	case token.GTR:
		return VInt{T: Gt(ta, tb)}
	case token.GEQ:
		return VInt{T: Ge(ta, tb)}
	case token.SHL:
		if tb.IsLit() && tb.Int.IsInt64() && tb.Int.Int64() < 64 {
			return VInt{T: x.wrap(Mul(ta, Pow2(uint(tb.Int.Int64()))), resType)}
		}
		return VInt{T: UF("shl", SInt, ta, tb)}
	case token.SHR:
		if tb.IsLit() && tb.Int.IsInt64() && tb.Int.Int64() < 64 && unsigned {
			return VInt{T: Div(ta, Pow2(uint(tb.Int.Int64())))}
		}
		return VInt{T: UF("shr", SInt, ta, tb)}
	case token.AND:
		if tb.IsLit() {
			m := new(big.Int).Add(tb.Int, big.NewInt(1))
			if m.Sign() > 0 && new(big.Int).And(m, tb.Int).Sign() == 0 && unsigned {
				return VInt{T: Mod(ta, BigLit(m))}
			}
		}
		return VInt{T: UF("bitand", SInt, ta, tb)}
	case token.OR:
		return VInt{T: UF("bitor", SInt, ta, tb)}
	case token.XOR:
		return VInt{T: UF("bitxor", SInt, ta, tb)}
	case token.AND_NOT:
		return VInt{T: UF("bitandnot", SInt, ta, tb)}
	}
	x.fail("binop %s", op)
	return nil
}

func (x *Explorer) nonneg(t *Term) bool { return t.IsLit() && t.Int.Sign() >= 0 }

func (x *Explorer) limit(ty types.Type) *Term {
	b := ty.Underlying().(*types.Basic)
	switch b.Kind() {
	case types.Uint8:
		return Pow2(8)
	case types.Uint16:
		return Pow2(16)
	case types.Uint32:
		return Pow2(32)
	}
	return Pow2(64)
}

// valEq is Go's == on two values of the same static type.
func (x *Explorer) valEq(st *State, a, b Val, t types.Type) *Term {
	switch av := a.(type) {
	case VInt:
		switch bv := b.(type) {
		case VInt:
			return Eq(av.T, bv.T)
		case VPtr:
			return Eq(av.T, asInt(bv))
		}
	case VPtr:
		switch bv := b.(type) {
		case VPtr:
			if av.Alloc != nil || bv.Alloc != nil {
				return BoolLit(av.Alloc == bv.Alloc && len(av.Path) == len(bv.Path))
			}
			if len(av.Path) == 0 && len(bv.Path) == 0 {
				return Eq(av.Ref, bv.Ref)
			}
			if len(av.Path) == 0 { // b interior (non-nil); a == nil?
				return And(Neq(av.Ref, IntLit(0)), UF("ptreq", SBool, av.Ref, bv.Ref))
			}
			if len(bv.Path) == 0 {
				if bv.Ref.IsLit() && bv.Ref.Int.Sign() == 0 {
					return tFalse // interior pointer is never nil
				}
				return And(Neq(bv.Ref, IntLit(0)), UF("ptreq", SBool, av.Ref, bv.Ref))
			}
			return UF("ptreq", SBool, av.Ref, bv.Ref)
		case VInt:
			return Eq(asInt(av), bv.T)
		}
	case VIface:
		bv := b.(VIface)
		return And(Eq(av.Tag, bv.Tag), Or(Eq(av.Tag, IntLit(0)), Eq(av.Val, bv.Val)))
	case VSlice:
		bv := b.(VSlice) // only comparison with nil is legal
		if bv.Arr.IsLit() && bv.Arr.Int.Sign() == 0 {
			return Eq(av.Arr, IntLit(0))
		}
		return Eq(bv.Arr, IntLit(0))
	case VMap:
		return Eq(av.Ref, b.(VMap).Ref)
	case VFunc:
		if av.Fn != nil {
			return tFalse
		}
		if bv, ok := b.(VFunc); ok && bv.Fn != nil {
			return tFalse
		}
		if av.ID != nil {
			if bv, ok := b.(VFunc); ok && bv.ID != nil {
				return Eq(av.ID, bv.ID)
			}
			return Eq(av.ID, IntLit(0))
		}
		if bv, ok := b.(VFunc); ok && bv.ID != nil {
			return Eq(bv.ID, IntLit(0))
		}
		return tTrue
	case VStruct:
		bv := b.(VStruct)
		u := av.T.Underlying().(*types.Struct)
		var cs []*Term
		for i := range av.F {
			cs = append(cs, x.valEq(st, av.F[i], bv.F[i], u.Field(i).Type()))
		}
		return And(cs...)
	case VArray:
		bv := b.(VArray)
		var cs []*Term
		for i := range av.L {
			cs = append(cs, Eq(av.L[i], bv.L[i]))
		}
		return And(cs...)
	}
	x.fail("valEq %T %T", a, b)
	return nil
}

func (x *Explorer) indexAddr(st *State, f *Frame, i *ssa.IndexAddr) Val {
	base := x.val(st, f, i.X)
	idx := asInt(x.val(st, f, i.Index))
	switch b := base.(type) {
	case VSlice:
		x.check(st, "index", And(Ge(idx, IntLit(0)), Lt(idx, b.Len)), i)
		return VPtr{Ref: b.Arr, Root: types.NewSlice(b.Elem), Path: []PathEl{{Field: -1, Index: Add(b.Off, idx)}}}
	case VPtr:
		at, ok := st.eng.pointee(b).Underlying().(*types.Array)
		if !ok {
			// pointer produced by SliceToArrayPointer: Root is a slice type
			if _, ok := b.Root.Underlying().(*types.Slice); ok {
				np := b
				np.Path = append(append([]PathEl{}, b.Path...), PathEl{Field: -1, Index: idx})
				return np
			}
			x.fail("IndexAddr on pointer to %s", st.eng.pointee(b))
		}
		x.nilCheck(st, b, i)
		x.check(st, "index", And(Ge(idx, IntLit(0)), Lt(idx, IntLit(at.Len()))), i)
		np := b
		np.Path = append(append([]PathEl{}, b.Path...), PathEl{Field: -1, Index: idx})
		return np
	}
	x.fail("IndexAddr on %T", base)
	return nil
}

func (x *Explorer) index(st *State, f *Frame, i *ssa.Index) Val {
	base := x.val(st, f, i.X)
	idx := asInt(x.val(st, f, i.Index))
	switch b := base.(type) {
	case VArray:
		x.check(st, "index", And(Ge(idx, IntLit(0)), Lt(idx, IntLit(b.T.Len()))), i)
		return getPath(st.eng, b, b.T, []PathEl{{Field: -1, Index: idx}})
	case VInt: // string
		x.check(st, "index", And(Ge(idx, IntLit(0)), Lt(idx, UF("strlen", SInt, b.T))), i)
		c := UF("strat", SInt, b.T, idx)
		st.addFact(And(Ge(c, IntLit(0)), Lt(c, IntLit(256))))
		return VInt{T: c}
	}
	x.fail("Index on %T", base)
	return nil
}

func (x *Explorer) slice(st *State, f *Frame, i *ssa.Slice) Val {
	base := x.val(st, f, i.X)
	var lo, hi, mx *Term
	if i.Low != nil {
		lo = asInt(x.val(st, f, i.Low))
	}
	if i.High != nil {
		hi = asInt(x.val(st, f, i.High))
	}
	if i.Max != nil {
		mx = asInt(x.val(st, f, i.Max))
	}
	switch b := base.(type) {
	case VSlice:
		if lo == nil {
			lo = IntLit(0)
		}
		if hi == nil {
			hi = b.Len
		}
		capEnd := b.Cap
		if mx != nil {
			capEnd = mx
		}
		x.check(st, "slice-bounds", And(Ge(lo, IntLit(0)), Le(lo, hi), Le(hi, capEnd), Le(capEnd, b.Cap)), i)
		return VSlice{Arr: b.Arr, Off: Add(b.Off, lo), Len: Sub(hi, lo), Cap: Sub(capEnd, lo), Elem: b.Elem}
	case VPtr: // pointer to array
		at, ok := st.eng.pointee(b).Underlying().(*types.Array)
		if !ok {
			x.fail("slice of pointer to %s", st.eng.pointee(b))
		}
		n := IntLit(at.Len())
		if lo == nil {
			lo = IntLit(0)
		}
		if hi == nil {
			hi = n
		}
		x.check(st, "slice-bounds", And(Ge(lo, IntLit(0)), Le(lo, hi), Le(hi, n)), i)
		if b.Alloc != nil || len(b.Path) != 0 {
			// array living in a cell or inside a struct: copy out into a fresh array object
			av := st.load(b).(VArray)
			ref := st.newRef()
			prefix := "[]" + st.eng.typeKey(at.Elem())
			for k, l := range st.eng.leaves(at.Elem()) {
				name := prefix + l.Path
				arr := st.heapGet(name, ArrSort(ArrSort(l.Sort)))
				st.heapSet(name, Store(arr, ref, av.L[k]))
			}
			st.note("slice-of-embedded-array-copied")
			return VSlice{Arr: ref, Off: lo, Len: Sub(hi, lo), Cap: Sub(n, lo), Elem: at.Elem()}
		}
		return VSlice{Arr: b.Ref, Off: lo, Len: Sub(hi, lo), Cap: Sub(n, lo), Elem: at.Elem()}
	case VInt: // string
		n := UF("strlen", SInt, b.T)
		if lo == nil {
			lo = IntLit(0)
		}
		if hi == nil {
			hi = n
		}
		x.check(st, "slice-bounds", And(Ge(lo, IntLit(0)), Le(lo, hi), Le(hi, n)), i)
		r := UF("substr", SInt, b.T, lo, hi)
		st.addFact(Eq(UF("strlen", SInt, r), Sub(hi, lo)))
		return VInt{T: r}
	}
	x.fail("Slice on %T", base)
	return nil
}

func (x *Explorer) makeIface(st *State, v Val, t types.Type) Val {
	if _, ok := t.Underlying().(*types.Interface); ok {
		if _, isTP := t.(*types.TypeParam); !isTP {
			return v
		}
	}
	tag := IntLit(x.eng.typeID(t))
	var payload *Term
	switch p := v.(type) {
	case VPtr:
		if p.Alloc == nil && len(p.Path) == 0 {
			payload = p.Ref
		}
	case VInt:
		if p.T.Sort == SInt {
			payload = UF("box:"+st.eng.typeKey(t), SInt, p.T)
			st.addFact(Eq(UF("unbox:"+st.eng.typeKey(t), SInt, payload), p.T))
		}
	}
	if payload == nil {
		payload = st.freshInt("boxed")
	}
	return VIface{Tag: tag, Val: payload, Dyn: v, DynT: t}
}

func (x *Explorer) typeAssert(st *State, f *Frame, i *ssa.TypeAssert) {
	v, ok := x.val(st, f, i.X).(VIface)
	if !ok {
		// type parameter valued operand
		f.env[i] = st.freshVal(i.Type(), "ta")
		return
	}
	at := i.AssertedType
	var okT *Term
	var res Val
	if _, isIface := at.Underlying().(*types.Interface); isIface {
		// interface-to-interface: success depends on the dynamic type's method set
		if v.DynT != nil {
			okT = BoolLit(types.Implements(v.DynT, at.Underlying().(*types.Interface)))
		} else {
			okT = And(Neq(v.Tag, IntLit(0)), UF("implements:"+st.eng.typeKey(at), SBool, v.Tag))
		}
		res = v
	} else {
		okT = Eq(v.Tag, IntLit(x.eng.typeID(at)))
		if v.Dyn != nil && v.DynT != nil && types.Identical(v.DynT, at) {
			res = v.Dyn
		} else {
			switch u := at.Underlying().(type) {
			case *types.Pointer:
				res = VPtr{Ref: v.Val, Root: u.Elem()}
				st.addFact(Implies(okT, Neq(v.Tag, IntLit(0))))
			case *types.Basic:
				if u.Info()&types.IsBoolean != 0 {
					res = VInt{T: UF("unboxb:"+st.eng.typeKey(at), SBool, v.Val)}
				} else {
					r := UF("unbox:"+st.eng.typeKey(at), SInt, v.Val)
					res = VInt{T: r}
					st.typeFacts(res, at)
				}
			default:
				res = st.freshVal(at, "unboxed")
			}
		}
	}
	if i.CommaOk {
		// value is the zero value when !ok; model by branching lazily: give the value as is
		f.env[i] = VTuple{E: []Val{res, VInt{T: okT}}}
		return
	}
	x.check(st, "type-assert", okT, i)
	f.env[i] = res
}

// coerce adapts a value between identical-underlying types (ChangeType) – layout is shared.
func (x *Explorer) coerce(st *State, v Val, from, to types.Type) Val {
	switch s := v.(type) {
	case VStruct:
		if to != nil {
			if _, ok := to.Underlying().(*types.Struct); ok {
				return VStruct{T: to, F: s.F}
			}
		}
	case VPtr:
		if to != nil && s.Alloc == nil && len(s.Path) == 0 {
			if pt, ok := to.Underlying().(*types.Pointer); ok {
				if _, isTP := from.(*types.TypeParam); !isTP {
					return VPtr{Ref: s.Ref, Root: pt.Elem()}
				}
			}
		}
	}
	return v
}

func (x *Explorer) convert(st *State, v Val, from, to types.Type) Val {
	fb, _ := from.Underlying().(*types.Basic)
	tb, _ := to.Underlying().(*types.Basic)
	switch {
	case fb != nil && tb != nil:
		t := asInt(v)
		fi, ti := fb.Info(), tb.Info()
		switch {
		case fi&types.IsInteger != 0 && ti&types.IsInteger != 0:
			return VInt{T: x.convInt(t, fb, tb)}
		case fi&types.IsInteger != 0 && ti&types.IsString != 0:
			return VInt{T: UF("str_of_rune", SInt, t)}
		case fi&types.IsString != 0 && ti&types.IsString != 0:
			return v
		case fi&types.IsFloat != 0 && ti&types.IsFloat != 0:
			return v
		case fi&types.IsInteger != 0 && ti&types.IsFloat != 0:
			return VInt{T: UF("itof", SInt, t)}
		case fi&types.IsFloat != 0 && ti&types.IsInteger != 0:
			r := UF("ftoi", SInt, t)
			rv := VInt{T: r}
			st.typeFacts(rv, to)
			return rv
		}
		return v
	case fb != nil && fb.Info()&types.IsString != 0 && isByteSlice(to):
		s := x.freshSlice(st, to.Underlying().(*types.Slice).Elem(), "bytes_of_str")
		str := asInt(v)
		st.assume(Eq(s.Len, UF("strlen", SInt, str)))
		bv := st.bval(s)
		st.assume(Eq(bv, UF("bytes_of_str", SInt, str)))
		st.addFact(Eq(UF("str_of_bytes", SInt, UF("bytes_of_str", SInt, str)), str))
		return s
	case isByteSlice(from) && tb != nil && tb.Info()&types.IsString != 0:
		s := v.(VSlice)
		bv := st.bval(s)
		r := UF("str_of_bytes", SInt, bv)
		st.addFact(Eq(UF("strlen", SInt, r), s.Len))
		st.addFact(Eq(UF("bytes_of_str", SInt, r), bv))
		return VInt{T: r}
	}
	return x.coerce(st, v, from, to)
}

func (x *Explorer) convInt(t *Term, from, to *types.Basic) *Term {
	flo, fhi, ok1 := intRange(from)
	tlo, thi, ok2 := intRange(to)
	if !ok1 || !ok2 {
		return t
	}
	if flo.Int.Cmp(tlo.Int) >= 0 && fhi.Int.Cmp(thi.Int) <= 0 {
		return t // widening
	}
	size := new(big.Int).Sub(thi.Int, tlo.Int)
	if t.IsLit() {
		r := new(big.Int).Sub(t.Int, tlo.Int)
		r.Mod(r, size)
		r.Add(r, tlo.Int)
		return BigLit(r)
	}
	if tlo.Int.Sign() == 0 {
		// to unsigned
		if flo.Int.Sign() < 0 && new(big.Int).Neg(flo.Int).Cmp(size) <= 0 && fhi.Int.Cmp(size) <= 0 {
			return Ite(Ge(t, IntLit(0)), t, Add(t, BigLit(size)))
		}
		return Mod(t, BigLit(size))
	}
	// to signed
	if flo.Int.Sign() == 0 && fhi.Int.Cmp(size) <= 0 {
		return Ite(Lt(t, thi), t, Sub(t, BigLit(size)))
	}
	return Sub(Mod(Sub(t, tlo), BigLit(size)), BigLit(new(big.Int).Neg(tlo.Int)))
}

// ---- maps ---------------------------------------------------------------------------

func (x *Explorer) mapHeaps(st *State, m VMap) (prefix string, keyOK bool) {
	return "map:" + st.eng.typeKey(m.T), len(st.eng.leaves(m.T.Key())) == 1
}

func (x *Explorer) mapInit(st *State, m VMap) {
	prefix, _ := x.mapHeaps(st, m)
	has := st.heapGet(prefix+"#has", ArrSort(ArrSort(SBool)))
	st.heapSet(prefix+"#has", Store(has, m.Ref, ConstArr(ArrSort(SBool), tFalse)))
	cnt := st.heapGet(prefix+"#len", ArrSort(SInt))
	st.heapSet(prefix+"#len", Store(cnt, m.Ref, IntLit(0)))
}

func (x *Explorer) mapKey(st *State, m VMap, k Val) *Term {
	ts := st.flatten(k, m.T.Key())
	if len(ts) == 1 && ts[0].Sort == SInt {
		return ts[0]
	}
	st.note("map-key-not-scalar")
	return st.freshInt("mapkey")
}

func (x *Explorer) lookup(st *State, f *Frame, i *ssa.Lookup) Val {
	base := x.val(st, f, i.X)
	m, ok := base.(VMap)
	if !ok {
		// string index
		s := asInt(base)
		idx := asInt(x.val(st, f, i.Index))
		x.check(st, "index", And(Ge(idx, IntLit(0)), Lt(idx, UF("strlen", SInt, s))), i)
		c := UF("strat", SInt, s, idx)
		st.addFact(And(Ge(c, IntLit(0)), Lt(c, IntLit(256))))
		return VInt{T: c}
	}
	prefix, _ := x.mapHeaps(st, m)
	k := x.mapKey(st, m, x.val(st, f, i.Index))
	has := Select(Select(st.heapGet(prefix+"#has", ArrSort(ArrSort(SBool))), m.Ref), k)
	vt := m.T.Elem()
	ls := st.eng.leaves(vt)
	ts := make([]*Term, len(ls))
	for j, l := range ls {
		arr := st.heapGet(prefix+"#val"+l.Path, ArrSort(ArrSort(l.Sort)))
		ts[j] = Ite(has, Select(Select(arr, m.Ref), k), zeroOf(l.Sort))
	}
	v, _ := st.eng.unflatten(vt, ts)
	st.typeFacts(v, vt)
	if i.CommaOk {
		return VTuple{E: []Val{v, VInt{T: has}}}
	}
	return v
}

func (x *Explorer) mapUpdate(st *State, f *Frame, i *ssa.MapUpdate) {
	m := x.val(st, f, i.Map).(VMap)
	x.check(st, "nil-map-write", Neq(m.Ref, IntLit(0)), i)
	prefix, _ := x.mapHeaps(st, m)
	k := x.mapKey(st, m, x.val(st, f, i.Key))
	hasArr := st.heapGet(prefix+"#has", ArrSort(ArrSort(SBool)))
	row := Select(hasArr, m.Ref)
	was := Select(row, k)
	st.heapSet(prefix+"#has", Store(hasArr, m.Ref, Store(row, k, tTrue)))
	cnt := st.heapGet(prefix+"#len", ArrSort(SInt))
	st.heapSet(prefix+"#len", Store(cnt, m.Ref, Add(Select(cnt, m.Ref), Ite(was, IntLit(0), IntLit(1)))))
	vt := m.T.Elem()
	ts := st.flatten(x.val(st, f, i.Value), vt)
	for j, l := range st.eng.leaves(vt) {
		arr := st.heapGet(prefix+"#val"+l.Path, ArrSort(ArrSort(l.Sort)))
		st.heapSet(prefix+"#val"+l.Path, Store(arr, m.Ref, Store(Select(arr, m.Ref), k, ts[j])))
	}
}

// ---- range over map / string / channel ----------------------------------------------

func (x *Explorer) doNext(st *State, f *Frame, i *ssa.Next) {
	it := x.val(st, f, i.Iter).(VTuple).E[0]
	tu := i.Type().(*types.Tuple)
	ok := st.freshSym("range_ok", SBool)
	k := st.freshVal(tu.At(1).Type(), "range_key")
	v := st.freshVal(tu.At(2).Type(), "range_val")
	if m, isMap := it.(VMap); isMap {
		prefix, _ := x.mapHeaps(st, m)
		if len(st.eng.leaves(m.T.Key())) == 1 {
			kt := st.flatten(k, m.T.Key())[0]
			if kt.Sort == SInt {
				has := Select(Select(st.heapGet(prefix+"#has", ArrSort(ArrSort(SBool))), m.Ref), kt)
				st.assume(Implies(ok, has))
				vt := m.T.Elem()
				ls := st.eng.leaves(vt)
				ts := make([]*Term, len(ls))
				for j, l := range ls {
					arr := st.heapGet(prefix+"#val"+l.Path, ArrSort(ArrSort(l.Sort)))
					ts[j] = Select(Select(arr, m.Ref), kt)
				}
				v, _ = st.eng.unflatten(vt, ts)
				st.typeFacts(v, vt)
			}
		}
	}
	f.env[i] = VTuple{E: []Val{VInt{T: ok}, k, v}}
}

// ---- channels -----------------------------------------------------------------------

func (x *Explorer) recv(st *State, name string, t types.Type, commaOk bool) Val {
	var vt types.Type = t
	if commaOk {
		vt = t.(*types.Tuple).At(0).Type()
	}
	v := st.freshVal(vt, "recv")
	x.ghostCount(st, "recv:"+name)
	if commaOk {
		// recvOpen("name"): whether the last receive got a value (false: the channel was closed and drained)
		ok := VInt{T: st.freshSym("recv_ok", SBool)}
		st.ghosts["recv:"+name+".ok"] = ok
		return VTuple{E: []Val{v, ok}}
	}
	return v
}

// timerFired: a receive from t.C of a *time.Timer consumes the timer - it will not fire again
// until it is Reset (model field Timer.armed; a Ticker keeps firing and needs nothing).
func (x *Explorer) timerFired(st *State, f *Frame, ch ssa.Value) {
	for {
		switch c := ch.(type) {
		case *ssa.UnOp:
			ch = c.X
			continue
		case *ssa.FieldAddr:
			pt, ok := c.X.Type().Underlying().(*types.Pointer)
			if !ok {
				return
			}
			n := namedOf(pt.Elem())
			if n == nil || n.Obj().Pkg() == nil || n.Obj().Pkg().Path() != "time" || n.Obj().Name() != "Timer" {
				return
			}
			if p, ok := x.val(st, f, c.X).(VPtr); ok && p.Ref != nil {
				name := "model:Timer.armed"
				arr := st.heapGet(name, ArrSort(SBool))
				st.heapSet(name, Store(arr, p.Ref, tFalse))
			}
			return
		default:
			return
		}
	}
}

func (x *Explorer) ghostCount(st *State, name string) {
	c, _ := st.ghosts[name+".count"].(VInt)
	if c.T == nil {
		c.T = IntLit(0)
	}
	st.ghosts[name+".count"] = VInt{T: Add(c.T, IntLit(1))}
}

func (x *Explorer) doSend(st *State, f *Frame, i *ssa.Send) {
	name := x.chanExprName(f, i.Chan)
	x.ghostCount(st, "send:"+name)
	st.ghosts["send:"+name+".last"] = x.val(st, f, i.X)
}

// chanExprName names a channel by the field it was loaded from (m.headerInCh → headerInCh).
func (x *Explorer) chanExprName(f *Frame, v ssa.Value) string {
	switch c := v.(type) {
	case *ssa.UnOp:
		return x.chanExprName(f, c.X)
	case *ssa.FieldAddr:
		st := c.X.Type().Underlying().(*types.Pointer).Elem().Underlying().(*types.Struct)
		n := st.Field(c.Field).Name()
		if n == "C" { // timer / ticker channel: qualify with the variable holding the timer
			return valueName(c.X) + ".C"
		}
		return n
	case *ssa.Alloc:
		return c.Comment
	case *ssa.Parameter:
		return c.Name()
	case *ssa.Call:
		return calleeName(c.Common())
	case *ssa.MakeInterface:
		return x.chanExprName(f, c.X)
	case *ssa.ChangeType:
		return x.chanExprName(f, c.X)
	case *ssa.FreeVar:
		return c.Name()
	}
	return "chan"
}

func (x *Explorer) doSelect(st *State, f *Frame, s *ssa.Select) {
	tu := s.Type().(*types.Tuple)
	n := len(s.States)
	total := n
	if !s.Blocking {
		total++
	}
	for k := 0; k < total; k++ {
		var cur *State
		if k == total-1 {
			cur = st
		} else {
			cur = x.fork(st)
		}
		cf := cur.top()
		idx := k
		if k == n {
			idx = -1
		}
		vals := []Val{VInt{T: IntLit(int64(idx))}, VInt{T: cur.freshSym("recv_ok", SBool)}}
		ri := 2
		for j, sc := range s.States {
			if sc.Dir == types.RecvOnly {
				var v Val
				if j == idx {
					v = cur.freshVal(tu.At(ri).Type(), "recv_"+x.chanExprName(cf, sc.Chan))
					x.ghostCount(cur, "recv:"+x.chanExprName(cf, sc.Chan))
				} else {
					v = cur.eng.zeroVal(tu.At(ri).Type())
				}
				vals = append(vals, v)
				ri++
			} else if j == idx {
				name := x.chanExprName(cf, sc.Chan)
				x.ghostCount(cur, "send:"+name)
				cur.ghosts["send:"+name+".last"] = x.val(cur, cf, sc.Send)
			}
		}
		if idx >= 0 {
			if ct := asInt(x.val(cur, cf, s.States[idx].Chan)); ct.Op == "uf" && ct.Name == "ctxdone_ch" {
				cur.assume(UF("ctxdone", SBool, ct.Args[0])) // <-ctx.Done() only fires on a finished context
			}
			x.timerFired(cur, cf, s.States[idx].Chan)
			cur.trail = append(cur.trail, fmt.Sprintf("%s:select#%d=%s", cf.name, cf.block.Index, x.chanExprName(cf, s.States[idx].Chan)))
			cur.ghosts["select.case"] = VInt{T: IntLit(int64(idx))}
		} else {
			cur.trail = append(cur.trail, fmt.Sprintf("%s:select#%d=default", cf.name, cf.block.Index))
		}
		cf.env[s] = VTuple{E: vals}
		cf.pc++
	}
}

// branchTag names a branch decision by the source line of its condition.
func (x *Explorer) branchTag(f *Frame, i *ssa.If, taken bool) string {
	p := i.Cond.Pos()
	if !p.IsValid() {
		for k := len(f.block.Instrs) - 1; k >= 0 && !p.IsValid(); k-- {
			p = f.block.Instrs[k].Pos()
		}
	}
	line := 0
	if p.IsValid() {
		line = x.eng.fset.Position(p).Line
	}
	sign := "F"
	if taken {
		sign = "T"
	}
	pre := ""
	if f.name != "" {
		pre = f.fn.Name() + ":"
	}
	return fmt.Sprintf("%sL%d%s", pre, line, sign)
}
