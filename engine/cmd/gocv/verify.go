package main

// Verifying one function against its contract: initial state, exploration, discharge.

import (
	"fmt"
	"go/types"
	"os"
	"path/filepath"
	"runtime"
	"runtime/debug"
	"sort"
	"strings"
	"sync"
	"sync/atomic"
	"time"

	"golang.org/x/tools/go/ssa"
)

type FuncResult struct {
	Key        string
	Obls       []*Obligation
	Paths      int
	EngineErr  string
	Unmodelled map[string]int
	Assumed    map[string]int
	Notes      map[string]int
	Bounded    map[string]int // bounded stand-ins used (loops of unknown helpers unrolled)
	Inlined    map[string]int
	Inputs     []*Term
	Seconds    float64
	SSAHash    string
}

func (e *Engine) VerifyFunc(fn *ssa.Function, con *Contract) (res *FuncResult) {
	t0 := time.Now()
	x := &Explorer{eng: e, fn: fn, con: con, fnKey: con.Key, notes: map[string]int{}, unmod: map[string]int{}, assumed: map[string]int{}, inlined: map[string]int{}, forkCount: map[string]int{}, bounded: map[string]int{}}
	res = &FuncResult{Key: con.Key, Unmodelled: x.unmod, Assumed: x.assumed, Notes: x.notes, Inlined: x.inlined, Bounded: x.bounded}
	defer func() {
		if r := recover(); r != nil {
			if ee, ok := r.(engineError); ok {
				res.EngineErr = ee.msg
			} else {
				res.EngineErr = fmt.Sprintf("internal error: %v\n%s", r, debug.Stack())
			}
		}
		res.Obls = x.obls
		res.Paths = x.paths
		if e.verbose {
			type kv struct {
				k string
				v int
			}
			var l []kv
			for k, v := range x.forkCount {
				l = append(l, kv{k, v})
			}
			sort.Slice(l, func(i, j int) bool { return l[i].v > l[j].v })
			for i, e := range l {
				if i >= 25 {
					break
				}
				fmt.Fprintf(os.Stderr, "  fork %5d  %s\n", e.v, e.k)
			}
		}
		res.Seconds = time.Since(t0).Seconds()
	}()
	if fn.Blocks == nil {
		x.fail("function %s has no body", con.Key)
	}
	st := &State{eng: e, x: x, factSet: map[string]bool{}, heap: map[string]*Term{}, oldHeap: map[string]*Term{}, ghosts: map[string]Val{}, closures: map[string]VFunc{}, notes: x.notes, nopanic: con.NoPanic}
	f := &Frame{fn: fn, env: map[ssa.Value]Val{}, cells: map[*ssa.Alloc]Val{}, block: fn.Blocks[0], contract: con,
		loops: map[*ssa.BasicBlock]*activeLoop{}, paramVal: map[string]Val{}, callOrd: map[string]int{}}
	st.frames = []*Frame{f}
	// check the header against the signature
	np := len(fn.Params)
	want := len(con.Params)
	if fn.Signature.Recv() != nil {
		want++
	}
	if np != want {
		x.fail("contract %s (%s:%d) lists %d parameters, function has %d", con.Key, con.File, con.Line, len(con.Params), np-(want-len(con.Params)))
	}
	for i, p := range fn.Params {
		v := st.freshVal(p.Type(), "in_"+p.Name())
		f.env[p] = v
		name := p.Name()
		if fn.Signature.Recv() != nil {
			if i == 0 {
				if con.Recv != "" {
					name = con.Recv
				}
				if pv, ok := v.(VPtr); ok {
					st.assume(Neq(pv.Ref, IntLit(0)))
					x.assumed["receiver of "+con.Key+" is non-nil"]++
				}
			} else if con.Params[i-1] != "_" {
				name = con.Params[i-1]
			}
		} else if con.Params[i] != "_" {
			name = con.Params[i]
		}
		if fv, isF := v.(VFunc); isF {
			if sc := con.SubParams[name]; sc != nil {
				fv.Con = sc
				v = fv
				f.env[p] = v
			} else if sc := con.SubParams[p.Name()]; sc != nil {
				fv.Con = sc
				v = fv
				f.env[p] = v
			}
		}
		f.paramVal[name] = v
		f.paramVal[p.Name()] = v
		res.Inputs = append(res.Inputs, st.flatten(v, p.Type())...)
	}
	f.free = make([]Val, len(fn.FreeVars))
	for i, fv := range fn.FreeVars {
		v := st.freshVal(fv.Type(), "free_"+fv.Name())
		if pv, ok := v.(VPtr); ok {
			st.assume(Neq(pv.Ref, IntLit(0)))
		}
		f.free[i] = v
		f.paramVal["&"+fv.Name()] = v
	}
	env := x.specEnv(st, f, con)
	env.vars = f.paramVal
	for _, ax := range e.db.Axioms {
		env.goal = false
		st.assume(env.evalBool(ax.Expr))
	}
	for _, cl := range con.Requires {
		env.goal = false
		st.assume(env.evalBool(cl.Expr))
	}
	// pre-state for old()
	for k, v := range st.heap {
		st.oldHeap[k] = v
	}
	st.written = map[string]bool{}
	x.work = []*State{st}
	x.atCallSeen = map[string]bool{}
	x.runAll()
	// an `at call` clause whose call no path reaches decides nothing: that is a failed obligation
	for _, callee := range sortedKeysC(con.AtCalls) {
		if x.atCallSeen[callee] {
			continue
		}
		for _, cl := range con.AtCalls[callee] {
			why := "no path of the function reaches a call of " + callee
			x.obls = append(x.obls, &Obligation{Func: x.fnKey, Name: "at-call[" + cl.Label + "]@" + callee + "#none", Kind: "at-call", Label: cl.Label, Where: cl.Where, Goal: tFalse,
				Res: &SolveResult{Status: "unbound", Backend: "binder", Output: "the clause no longer binds to the code: " + why}, Query: "; " + why})
		}
	}
	return res
}

func sortedKeysC(m map[string][]*Clause) []string {
	r := make([]string, 0, len(m))
	for k := range m {
		r = append(r, k)
	}
	sort.Strings(r)
	return r
}

// ---- discharge ----------------------------------------------------------------------

// containsSym reports whether t mentions the symbol name.
func containsSym(t *Term, name string) bool {
	if t.Op == "sym" {
		return t.Name == name
	}
	for _, a := range t.Args {
		if containsSym(a, name) {
			return true
		}
	}
	return false
}

// patternOffsets finds, in the body of a quantifier over k, the select index patterns k and
// A + k; it returns the list of offsets A (0 for the bare pattern).
func patternOffsets(t *Term, k string, out map[string]*Term) {
	if t.Op == "select" {
		idx := t.Args[1]
		switch {
		case idx.Op == "sym" && idx.Name == k:
			out["0"] = IntLit(0)
		case idx.Op == "+" && len(idx.Args) == 2:
			a, b := idx.Args[0], idx.Args[1]
			if b.Op == "sym" && b.Name == k && !containsSym(a, k) {
				out[a.String()] = a
			} else if a.Op == "sym" && a.Name == k && !containsSym(b, k) {
				out[b.String()] = b
			}
		}
	}
	for _, a := range t.Args {
		patternOffsets(a, k, out)
	}
}

// instances instantiates the universally quantified parts of an assumption: at the given
// terms directly, and at I - A for every goal index term I and pattern offset A (so that
// an assumed fact about row[A+k] is available at the index the goal reads).
func instances(t *Term, direct []*Term, goalIdx []*Term) []*Term {
	switch t.Op {
	case "forall":
		if len(t.Bound) != 1 {
			return nil
		}
		k := t.Bound[0].Name
		cands := map[string]*Term{}
		for _, s := range direct {
			cands[s.String()] = s
		}
		offs := map[string]*Term{}
		patternOffsets(t.Args[0], k, offs)
		for _, a := range offs {
			for _, i := range goalIdx {
				c := Sub(i, a)
				cands[c.String()] = c
			}
		}
		var out []*Term
		for _, key := range sortedKeys(cands) {
			out = append(out, Subst(t.Args[0], map[string]*Term{k: cands[key]}))
		}
		return out
	case "and":
		var out []*Term
		for _, a := range t.Args {
			out = append(out, instances(a, direct, goalIdx)...)
		}
		return out
	case "=>":
		var out []*Term
		for _, i := range instances(t.Args[1], direct, goalIdx) {
			out = append(out, Implies(t.Args[0], i))
		}
		return out
	}
	return nil
}

// witnessTerms collects the ground witnesses of assumed existentials (ex_* skolem terms).
func witnessTerms(t *Term, out map[string]*Term) {
	if (t.Op == "uf" || t.Op == "sym") && strings.HasPrefix(t.Name, "ex_") && t.Sort == SInt {
		out[t.String()] = t
	}
	for _, a := range t.Args {
		witnessTerms(a, out)
	}
}

// expandExists replaces an existential in positive position by the disjunction of its
// instances at the hinted terms and the given witnesses.
func expandExists(t *Term, pos bool, ws []*Term) *Term {
	switch t.Op {
	case "exists":
		if !pos || len(t.Bound) != 1 {
			return t
		}
		var ds []*Term
		seen := map[string]bool{}
		for _, c := range append(append([]*Term{}, t.Args[1:]...), ws...) {
			if seen[c.String()] {
				continue
			}
			seen[c.String()] = true
			ds = append(ds, expandExists(Subst(t.Args[0], map[string]*Term{t.Bound[0].Name: c}), pos, ws))
		}
		return Or(ds...)
	case "and", "or":
		args := make([]*Term, len(t.Args))
		for i, a := range t.Args {
			args[i] = expandExists(a, pos, ws)
		}
		return rebuild(t, args)
	case "not":
		return Not(expandExists(t.Args[0], !pos, ws))
	case "=>":
		return Implies(expandExists(t.Args[0], !pos, ws), expandExists(t.Args[1], pos, ws))
	}
	return t
}

func indexTerms(t *Term, out map[string]*Term, depth int) {
	if t.Op == "select" && t.Args[1].Sort == SInt && !t.Args[1].IsLit() {
		out[t.Args[1].String()] = t.Args[1]
	}
	for _, a := range t.Args {
		indexTerms(a, out, depth+1)
	}
}

func hasQuant(t *Term) bool {
	return strings.Contains(t.String(), "(forall ") || strings.Contains(t.String(), "(exists ")
}

// BuildQuery renders the obligation. With qf set, quantified assumptions are replaced by
// their instances at the skolem constants and index terms of the goal (sound: dropping an
// assumption can only make a proof harder), so the query is quantifier-free.
func (o *Obligation) BuildQuery(inputs []*Term, qf bool) string {
	var as []*Term
	var quant []*Term
	for _, a := range o.Assume {
		if hasQuant(a) {
			quant = append(quant, a)
			if !qf {
				as = append(as, a)
			}
		} else {
			as = append(as, a)
		}
	}
	if len(quant) > 0 {
		idx := map[string]*Term{}
		indexTerms(o.Goal, idx, 0)
		var goalIdx []*Term
		for _, k := range sortedKeys(idx) {
			goalIdx = append(goalIdx, idx[k])
		}
		for _, a := range quant {
			for _, i := range instances(a, o.Skolems, goalIdx) {
				if !hasQuant(i) || !qf {
					as = append(as, i)
				}
			}
		}
	}
	if o.Cover {
		return Query(nil, as, tTrue, nil)
	}
	goal := o.Goal
	if qf && hasQuant(goal) {
		// existentials to be proved: try the hinted witnesses and the witnesses of assumed
		// existentials (a disjunction of instances implies the existential, so this is sound)
		wit := map[string]*Term{}
		for _, a := range as {
			witnessTerms(a, wit)
		}
		// witnesses of hypotheses instantiated at the goal's own skolem constants come first
		var ws []*Term
		isSk := map[string]bool{}
		for _, sk := range o.Skolems {
			isSk[sk.String()] = true
		}
		for pass := 0; pass < 2; pass++ {
			for _, k := range sortedKeys(wit) {
				w := wit[k]
				direct := len(w.Args) > 0
				for _, a := range w.Args {
					if !isSk[a.String()] {
						direct = false
					}
				}
				if (pass == 0) == direct && len(ws) < 12 {
					ws = append(ws, w)
				}
			}
		}
		goal = expandExists(goal, true, ws)
		if hasQuant(goal) {
			return ""
		}
		// the expanded goal reads new indices: instantiate the quantified assumptions there too
		idx := map[string]*Term{}
		indexTerms(goal, idx, 0)
		var goalIdx []*Term
		for _, k := range sortedKeys(idx) {
			goalIdx = append(goalIdx, idx[k])
		}
		have := map[string]bool{}
		for _, a := range as {
			have[a.String()] = true
		}
		for _, a := range quant {
			for _, i := range instances(a, append(append([]*Term{}, o.Skolems...), ws...), goalIdx) {
				if !hasQuant(i) && !have[i.String()] {
					have[i.String()] = true
					as = append(as, i)
				}
			}
		}
	}
	return Query(nil, as, Not(goal), inputs)
}

func (o *Obligation) Quantified() bool {
	for _, a := range o.Assume {
		if hasQuant(a) {
			return true
		}
	}
	return hasQuant(o.Goal)
}

// symsOf collects the free constants of a term (not UF names).
func symsOf(t *Term, out map[string]bool) {
	switch t.Op {
	case "sym":
		out[t.Name] = true
		return
	case "int", "true", "false":
		return
	}
	for _, a := range t.Args {
		symsOf(a, out)
	}
}

// relevant keeps the assumptions connected to the goal through shared constants (cone of
// influence). Dropping assumptions is sound for proving; a query that does not discharge in
// this form is retried with every assumption.
func relevant(assume []*Term, goal *Term) []*Term {
	seen := map[string]bool{}
	symsOf(goal, seen)
	type item struct {
		t    *Term
		syms map[string]bool
		in   bool
	}
	items := make([]*item, len(assume))
	for i, a := range assume {
		m := map[string]bool{}
		symsOf(a, m)
		items[i] = &item{t: a, syms: m}
		if len(m) == 0 {
			items[i].in = true // ground facts (string lengths etc.)
		}
	}
	for changed := true; changed; {
		changed = false
		for _, it := range items {
			if it.in {
				continue
			}
			hit := false
			for s := range it.syms {
				if seen[s] {
					hit = true
					break
				}
			}
			if hit {
				it.in = true
				changed = true
				for s := range it.syms {
					seen[s] = true
				}
			}
		}
	}
	var out []*Term
	for _, it := range items {
		if it.in {
			out = append(out, it.t)
		}
	}
	return out
}

// Decide runs the quantifier-free form first and falls back to the quantified one.
func (o *Obligation) Decide(solver *Solver, inputs []*Term) {
	if !o.Cover && len(o.Assume) > 40 {
		full := o.Assume
		o.Assume = relevant(full, o.Goal)
		if len(o.Assume) < len(full) {
			o.decide(solver, inputs)
			if o.Res != nil && o.Res.Status == "unsat" {
				o.Assume = full
				return
			}
		}
		o.Assume = full
	}
	o.decide(solver, inputs)
	// a solver that ran into the time limit says nothing about the code: before the obligation is
	// reported, it gets one more attempt with five times the budget (a loaded or slower machine
	// must not turn a proof that takes a few seconds into an alarm)
	if !o.Cover && o.Res != nil && o.Res.Status == "timeout" && solver.timeoutS < 30 {
		big := solver.withTimeout(solver.timeoutS * 5)
		first := o.Res
		o.decide(big, inputs)
		if o.Res != nil && o.Res.Status != "unsat" {
			o.Res.Output += "\n; note: undecided again with a budget of " + itoa(big.timeoutS) + "s"
			o.Res.Seconds += first.Seconds
		}
	}
}

func (o *Obligation) decide(solver *Solver, inputs []*Term) {
	if !o.Quantified() {
		o.Query = o.BuildQuery(inputs, true)
		o.Res = solver.Solve(o.Query)
		return
	}
	q1 := o.BuildQuery(inputs, true)
	if d := os.Getenv("GOCV_DUMPQF"); d != "" {
		_ = os.WriteFile(filepath.Join(d, strings.NewReplacer("/", "_", " ", "_").Replace(o.Name+"_"+fmt.Sprint(len(o.Trail)))+".qf.smt2"), []byte(q1), 0o644)
	}
	var r1 *SolveResult
	if q1 != "" {
		r1 = solver.Solve(q1)
		if r1.Status == "unsat" || o.Cover {
			o.Query, o.Res = q1, r1
			return
		}
	}
	q2 := o.BuildQuery(inputs, false)
	r2 := solver.Solve(q2)
	if r2.Status == "unsat" || r1 == nil {
		o.Query, o.Res = q2, r2
		return
	}
	// undecided with quantifiers; keep the quantifier-free model as the candidate counterexample
	o.Query = q1
	o.Res = &SolveResult{Status: r1.Status, Backend: r1.Backend, Seconds: r1.Seconds + r2.Seconds,
		Output: r1.Output + "\n; note: model of the quantifier-free relaxation; the quantified query answered " + r2.Status + " (" + r2.Backend + ")"}
	if r1.Status == "sat" {
		o.Res.Status = "sat-relaxed"
	}
}

// batchParts splits an obligation into the assumptions shared by its group (quantifier-free
// ones) and the goal-specific quantifier instances.
func (o *Obligation) batchParts() (common, extra []*Term, ok bool) {
	if hasQuant(o.Goal) {
		return nil, nil, false
	}
	var quant []*Term
	for _, a := range o.Assume {
		if hasQuant(a) {
			quant = append(quant, a)
		} else {
			common = append(common, a)
		}
	}
	if len(quant) > 0 {
		idx := map[string]*Term{}
		indexTerms(o.Goal, idx, 0)
		var goalIdx []*Term
		for _, k := range sortedKeys(idx) {
			goalIdx = append(goalIdx, idx[k])
		}
		for _, a := range quant {
			for _, i := range instances(a, o.Skolems, goalIdx) {
				if !hasQuant(i) {
					extra = append(extra, i)
				}
			}
		}
	}
	return common, extra, true
}

// solveBatch discharges obligations that share their assumptions in one z3 session
// (push/pop per goal, quantifier-free relaxation). Anything not answered unsat is left for
// the individual procedure.
func solveBatch(solver *Solver, obls []*Obligation) {
	var common []*Term
	var extras [][]*Term
	var negs []*Term
	var todo []*Obligation
	for _, o := range obls {
		c, e, ok := o.batchParts()
		if !ok {
			continue
		}
		if len(c) > len(common) {
			common = c // facts only grow within one state: the largest set is a superset
		}
		extras = append(extras, e)
		negs = append(negs, Not(o.Goal))
		todo = append(todo, o)
	}
	if len(todo) < 2 {
		return
	}
	q := BatchQuery(common, extras, negs, 2000)
	t0 := time.Now()
	out := solver.RunRaw("z3-new", q, 2*len(todo)+5)
	dt := time.Since(t0).Seconds() / float64(len(todo))
	lines := strings.Split(strings.TrimSpace(out), "\n")
	k := 0
	for _, ln := range lines {
		ln = strings.TrimSpace(ln)
		if ln != "unsat" && ln != "sat" && ln != "unknown" && ln != "timeout" {
			continue
		}
		if k >= len(todo) {
			break
		}
		if ln == "unsat" {
			todo[k].Res = &SolveResult{Status: "unsat", Backend: "z3-new(batch)", Seconds: dt}
		}
		k++
	}
}

func Discharge(solver *Solver, results []*FuncResult, progress func(done, total int)) {
	if os.Getenv("GOCV_NOBATCH") == "" {
		groups := map[string][]*Obligation{}
		var order []string
		for _, r := range results {
			for _, o := range r.Obls {
				if o.Res != nil || o.Cover || o.AKey == "" {
					continue
				}
				k := r.Key + "|" + o.AKey
				if _, ok := groups[k]; !ok {
					order = append(order, k)
				}
				groups[k] = append(groups[k], o)
			}
		}
		var bwg sync.WaitGroup
		bch := make(chan []*Obligation)
		workers := runtime.NumCPU()
		if workers > 16 {
			workers = 16
		}
		for w := 0; w < workers; w++ {
			bwg.Add(1)
			go func() {
				defer bwg.Done()
				for g := range bch {
					func() {
						defer func() { recover() }()
						solveBatch(solver, g)
					}()
				}
			}()
		}
		for _, k := range order {
			if len(groups[k]) >= 2 {
				bch <- groups[k]
			}
		}
		close(bch)
		bwg.Wait()
	}
	type job struct {
		o      *Obligation
		inputs []*Term
	}
	var jobs []job
	for _, r := range results {
		for _, o := range r.Obls {
			if o.Res == nil {
				jobs = append(jobs, job{o, r.Inputs})
			}
		}
	}
	if mj := os.Getenv("GOCV_MAXJOBS"); mj != "" {
		n := 0
		fmt.Sscanf(mj, "%d", &n)
		if n > 0 && n < len(jobs) {
			jobs = jobs[len(jobs)/2 : len(jobs)/2+n]
		}
	}
	failedGroups := map[string]bool{}
	var wg sync.WaitGroup
	ch := make(chan job)
	var mu sync.Mutex
	done := 0
	workers := runtime.NumCPU()
	if workers > 16 {
		workers = 16
	}
	for w := 0; w < workers; w++ {
		wg.Add(1)
		go func() {
			defer wg.Done()
			for j := range ch {
				gk := j.o.Func + "#" + j.o.Name
				mu.Lock()
				skip := failedGroups[gk] && !j.o.Cover
				mu.Unlock()
				if skip {
					// one failing path is enough to report the obligation
					j.o.Res = &SolveResult{Status: "skipped", Backend: "none", Output: "not run: another path of this obligation already failed"}
					continue
				}
				func() {
					defer func() {
						if r := recover(); r != nil {
							j.o.Res = &SolveResult{Status: "error", Output: fmt.Sprint(r)}
						}
					}()
					j.o.Decide(solver, j.inputs)
					if j.o.Res != nil && j.o.Res.Status == "unsat" && !keepQuery(j.o) {
						j.o.Query = ""
					}
				}()
				mu.Lock()
				if j.o.Res != nil && j.o.Res.Status != "unsat" && !j.o.Cover {
					failedGroups[gk] = true
				}
				done++
				if progress != nil {
					progress(done, len(jobs))
				}
				mu.Unlock()
			}
		}()
	}
	for _, j := range jobs {
		ch <- j
	}
	close(ch)
	wg.Wait()
}

// ---- grouping -----------------------------------------------------------------------

type OblGroup struct {
	At      string
	Func    string
	Name    string
	Kind    string
	Label   string
	Where   string
	Paths   int
	Failed  []*Obligation // not unsat (or, for cover, all unsat)
	Backend map[string]int
	Seconds float64
	OK      bool
}

func GroupObligations(results []*FuncResult) []*OblGroup {
	m := map[string]*OblGroup{}
	var order []string
	for _, r := range results {
		for _, o := range r.Obls {
			k := o.Func + "#" + o.Name
			g := m[k]
			if g == nil {
				g = &OblGroup{Func: o.Func, Name: o.Name, Kind: o.Kind, Label: o.Label, Where: o.Where, At: o.At, Backend: map[string]int{}, OK: true}
				m[k] = g
				order = append(order, k)
			}
			g.Paths++
			if o.Res != nil {
				g.Backend[o.Res.Backend]++
				g.Seconds += o.Res.Seconds
			}
			if o.Cover {
				// a cover group is fine if at least one path is satisfiable (or undecided)
				if o.Res == nil || o.Res.Status != "unsat" {
					g.Failed = nil
					g.OK = true
					g.Kind = "cover-ok"
				} else if g.Kind != "cover-ok" {
					g.Failed = append(g.Failed, o)
					g.OK = false
				}
				continue
			}
			if o.Res == nil || o.Res.Status != "unsat" {
				g.Failed = append(g.Failed, o)
				g.OK = false
			}
		}
	}
	sort.Strings(order)
	out := make([]*OblGroup, 0, len(order))
	for _, k := range order {
		g := m[k]
		if g.Kind == "cover-ok" {
			g.Kind = "cover"
		}
		out = append(out, g)
	}
	return out
}

func typeString(t types.Type) string { return t.String() }

var keptQueries int32

// keepQuery keeps the text of the first few discharged queries (evidence samples).
func keepQuery(o *Obligation) bool {
	if o.Cover {
		return false
	}
	return atomic.AddInt32(&keptQueries, 1) <= 40
}
