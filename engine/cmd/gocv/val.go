package main

// Symbolic values and the Burstall–Bornat heap.

import (
	"fmt"
	"go/types"
	"regexp"
	"strings"

	"golang.org/x/tools/go/ssa"
)

type Val interface{}

// VInt is a scalar leaf: Int or Bool sorted. Rec names a spec-level record type, if any.
type VInt struct {
	T   *Term
	Rec string
}

type PathEl struct {
	Field int   // field index, or -1 for an index step
	Index *Term // for index steps
}

// VPtr points into a local cell (Alloc != nil) or into a heap object (Ref).
type VPtr struct {
	Alloc *ssa.Alloc
	Frame int // index into State.frames of the frame owning the cell
	Ref   *Term
	Root  types.Type // type of the root object (struct, array object "[]E" as *types.Slice, or boxed basic)
	Path  []PathEl
}

type VSlice struct {
	Arr, Off, Len, Cap *Term
	Elem               types.Type
}

type VStruct struct {
	T types.Type
	F []Val
}

// VArray is a Go array value: one SMT array per leaf of the element type.
type VArray struct {
	T *types.Array
	L []*Term
}

type VIface struct {
	Tag, Val *Term
	Dyn      Val        // statically known dynamic value, if any
	DynT     types.Type // its type
}

type VFunc struct {
	Fn   *ssa.Function
	Bind []Val
	ID   *Term
	Con  *Contract // the `param` contract of the function-typed parameter this value came in through (travels with the value into helpers)
}

type VMap struct {
	Ref *Term
	T   *types.Map
}

type VTuple struct{ E []Val }

// ---- type layout --------------------------------------------------------------------

type Leaf struct {
	Path string
	Sort string
}

func isTimeTime(t types.Type) bool {
	n, ok := t.(*types.Named)
	return ok && n.Obj().Pkg() != nil && n.Obj().Pkg().Path() == "time" && n.Obj().Name() == "Time"
}

func (e *Engine) leaves(t types.Type) []Leaf {
	key := t.String()
	if l, ok := e.leafCache[key]; ok {
		return l
	}
	var out []Leaf
	if isTimeTime(t) {
		out = []Leaf{{"", SInt}}
		e.leafCache[key] = out
		return out
	}
	switch u := t.Underlying().(type) {
	case *types.Basic:
		if u.Info()&types.IsBoolean != 0 {
			out = []Leaf{{"", SBool}}
		} else {
			out = []Leaf{{"", SInt}}
		}
	case *types.Pointer, *types.Map, *types.Chan, *types.Signature, *types.TypeParam:
		out = []Leaf{{"", SInt}}
	case *types.Slice:
		out = []Leaf{{"#arr", SInt}, {"#off", SInt}, {"#len", SInt}, {"#cap", SInt}}
	case *types.Interface:
		if _, ok := t.(*types.TypeParam); ok {
			out = []Leaf{{"", SInt}}
		} else {
			out = []Leaf{{"#tag", SInt}, {"#val", SInt}}
		}
	case *types.Struct:
		for i := 0; i < u.NumFields(); i++ {
			f := u.Field(i)
			for _, l := range e.leaves(f.Type()) {
				out = append(out, Leaf{"." + f.Name() + l.Path, l.Sort})
			}
		}
	case *types.Array:
		for _, l := range e.leaves(u.Elem()) {
			out = append(out, Leaf{"[]" + l.Path, ArrSort(l.Sort)})
		}
	case *types.Tuple:
		for i := 0; i < u.Len(); i++ {
			for _, l := range e.leaves(u.At(i).Type()) {
				out = append(out, Leaf{fmt.Sprintf("#%d%s", i, l.Path), l.Sort})
			}
		}
	default:
		out = []Leaf{{"", SInt}}
	}
	e.leafCache[key] = out
	return out
}

func zeroOf(sort string) *Term {
	switch {
	case sort == SInt:
		return IntLit(0)
	case sort == SBool:
		return tFalse
	case IsArrSort(sort):
		return ConstArr(sort, zeroOf(ElemSort(sort)))
	}
	panic("zeroOf " + sort)
}

var aliasWord = regexp.MustCompile(`\b(byte|rune|any)\b`)

// typeKey names a type for heap arrays; byte/uint8, rune/int32 and any/interface{} are the
// same memory and must get the same name.
func (e *Engine) typeKey(t types.Type) string {
	s := types.TypeString(t, func(p *types.Package) string { return p.Name() })
	return aliasWord.ReplaceAllStringFunc(s, func(w string) string {
		switch w {
		case "byte":
			return "uint8"
		case "rune":
			return "int32"
		}
		return "interface{}"
	})
}

// unflatten builds a Val of type t from leaf terms.
func (e *Engine) unflatten(t types.Type, ts []*Term) (Val, []*Term) {
	if isTimeTime(t) {
		return VInt{T: ts[0]}, ts[1:]
	}
	if _, ok := t.(*types.TypeParam); ok {
		return VInt{T: ts[0]}, ts[1:]
	}
	switch u := t.Underlying().(type) {
	case *types.Pointer:
		return VPtr{Ref: ts[0], Root: u.Elem()}, ts[1:]
	case *types.Map:
		return VMap{Ref: ts[0], T: u}, ts[1:]
	case *types.Signature:
		v := VFunc{ID: ts[0]}
		if ts[0].IsLit() {
			if fn, ok := e.fnByID[ts[0].Int.Int64()]; ok {
				v.Fn = fn
			}
		}
		return v, ts[1:]
	case *types.Slice:
		return VSlice{Arr: ts[0], Off: ts[1], Len: ts[2], Cap: ts[3], Elem: u.Elem()}, ts[4:]
	case *types.Interface:
		return VIface{Tag: ts[0], Val: ts[1]}, ts[2:]
	case *types.Struct:
		f := make([]Val, u.NumFields())
		for i := range f {
			f[i], ts = e.unflatten(u.Field(i).Type(), ts)
		}
		return VStruct{T: t, F: f}, ts
	case *types.Array:
		n := len(e.leaves(u.Elem()))
		return VArray{T: u, L: ts[:n]}, ts[n:]
	case *types.Tuple:
		el := make([]Val, u.Len())
		for i := range el {
			el[i], ts = e.unflatten(u.At(i).Type(), ts)
		}
		return VTuple{E: el}, ts
	}
	return VInt{T: ts[0]}, ts[1:]
}

// flatten yields the leaf terms of v (of static type t).
func (st *State) flatten(v Val, t types.Type) []*Term {
	e := st.eng
	switch x := v.(type) {
	case VInt:
		return []*Term{x.T}
	case VPtr:
		if x.Alloc == nil && len(x.Path) == 0 {
			return []*Term{x.Ref}
		}
		// interior or cell pointer stored as data: identity is lost
		st.note("interior-pointer-escape")
		return []*Term{st.freshInt("iptr")}
	case VMap:
		return []*Term{x.Ref}
	case VFunc:
		if x.ID != nil {
			return []*Term{x.ID}
		}
		if x.Fn != nil && len(x.Bind) == 0 {
			return []*Term{IntLit(e.fnID(x.Fn))}
		}
		id := st.freshInt("closure")
		st.closures[id.String()] = x
		return []*Term{id}
	case VSlice:
		return []*Term{x.Arr, x.Off, x.Len, x.Cap}
	case VIface:
		return []*Term{x.Tag, x.Val}
	case VStruct:
		var out []*Term
		u := x.T.Underlying().(*types.Struct)
		for i, f := range x.F {
			out = append(out, st.flatten(f, u.Field(i).Type())...)
		}
		return out
	case VArray:
		return x.L
	case VTuple:
		var out []*Term
		tu := t.(*types.Tuple)
		for i, f := range x.E {
			out = append(out, st.flatten(f, tu.At(i).Type())...)
		}
		return out
	case nil:
		return st.flatten(st.eng.zeroVal(t), t)
	}
	panic(fmt.Sprintf("flatten %T", v))
}

func (e *Engine) zeroVal(t types.Type) Val {
	ls := e.leaves(t)
	ts := make([]*Term, len(ls))
	for i, l := range ls {
		ts[i] = zeroOf(l.Sort)
	}
	v, _ := e.unflatten(t, ts)
	return v
}

// freshVal makes an unconstrained value of type t, with the type's range facts.
func (st *State) freshVal(t types.Type, hint string) Val {
	ls := st.eng.leaves(t)
	ts := make([]*Term, len(ls))
	for i, l := range ls {
		ts[i] = st.freshSym(hint+l.Path, l.Sort)
	}
	v, _ := st.eng.unflatten(t, ts)
	st.typeFacts(v, t)
	return v
}

func intRange(b *types.Basic) (lo, hi *Term, ok bool) {
	switch b.Kind() {
	case types.Uint8:
		return IntLit(0), Pow2(8), true
	case types.Uint16:
		return IntLit(0), Pow2(16), true
	case types.Uint32:
		return IntLit(0), Pow2(32), true
	case types.Uint64, types.Uint, types.Uintptr:
		return IntLit(0), Pow2(64), true
	case types.Int8:
		return IntLit(-128), IntLit(128), true
	case types.Int16:
		return IntLit(-32768), IntLit(32768), true
	case types.Int32:
		return IntLit(-(1 << 31)), IntLit(1 << 31), true
	case types.Int64, types.Int:
		l := Pow2(63)
		l.Int.Neg(l.Int)
		l.str = ""
		return l, Pow2(63), true
	}
	return nil, nil, false
}

// typeFacts records range facts for v.
func (st *State) typeFacts(v Val, t types.Type) {
	if isTimeTime(t) {
		// time.Time is modelled as its UnixNano value (an int64)
		if x, ok := v.(VInt); ok && !x.T.IsLit() {
			lo := Pow2(63)
			lo.Int.Neg(lo.Int)
			lo.str = ""
			st.addFact(Ge(x.T, lo))
			st.addFact(Lt(x.T, Pow2(63)))
		}
		return
	}
	switch x := v.(type) {
	case VInt:
		if b, ok := t.Underlying().(*types.Basic); ok && x.T.Sort == SInt && !x.T.IsLit() {
			if lo, hi, ok := intRange(b); ok {
				st.addFact(Ge(x.T, lo))
				st.addFact(Lt(x.T, hi))
			}
		}
	case VPtr:
		if x.Ref != nil && !x.Ref.IsLit() {
			st.addFact(Ge(x.Ref, IntLit(0)))
			st.addFact(st.refBound(x.Ref))
		}
	case VSlice:
		if !x.Len.IsLit() || !x.Cap.IsLit() || !x.Off.IsLit() {
			st.addFact(Ge(x.Off, IntLit(0)))
			st.addFact(Ge(x.Len, IntLit(0)))
			st.addFact(Ge(x.Cap, x.Len))
			st.addFact(Lt(x.Cap, Pow2(62)))
			st.addFact(Lt(x.Off, Pow2(62)))
		}
		if !x.Arr.IsLit() {
			st.addFact(Ge(x.Arr, IntLit(0)))
			st.addFact(st.refBound(x.Arr))
			// nil slice has no elements
			st.addFact(Implies(Eq(x.Arr, IntLit(0)), And(Eq(x.Len, IntLit(0)), Eq(x.Cap, IntLit(0)))))
		}
	case VIface:
		if !x.Tag.IsLit() {
			st.addFact(Ge(x.Tag, IntLit(0)))
		}
	case VMap:
		if !x.Ref.IsLit() {
			st.addFact(Ge(x.Ref, IntLit(0)))
			st.addFact(st.refBound(x.Ref))
		}
	case VStruct:
		u := x.T.Underlying().(*types.Struct)
		for i, f := range x.F {
			st.typeFacts(f, u.Field(i).Type())
		}
	case VTuple:
		if tu, ok := t.(*types.Tuple); ok {
			for i, f := range x.E {
				st.typeFacts(f, tu.At(i).Type())
			}
		}
	}
}

const refBase = 1000000

// refBound: an unknown reference denotes an object that exists now: one of the pre-state
// (below refBase, or a global), or one allocated earlier on this path - never one that a
// later allocation will return.
func (st *State) refBound(t *Term) *Term {
	if preStateTerm(t) {
		return Lt(t, IntLit(refBase))
	}
	return Or(Lt(t, IntLit(int64(refBase+st.x.nextRef+1))), Ge(t, IntLit(2000000000)))
}

// preStateTerm: is t a function input or a value read from the initial heap? Such references
// denote objects that existed before the call, i.e. lie below refBase.
func preStateTerm(t *Term) bool {
	switch t.Op {
	case "sym":
		return strings.HasPrefix(t.Name, "in_") || strings.HasPrefix(t.Name, "free_")
	case "select":
		a := t.Args[0]
		for a.Op == "select" {
			a = a.Args[0]
		}
		return a.Op == "sym" && strings.HasPrefix(a.Name, "H0:")
	}
	return false
}

// ---- heap addressing ----------------------------------------------------------------

// pointee returns the static type the pointer points to.
func (e *Engine) pointee(p VPtr) types.Type {
	t := p.Root
	for _, el := range p.Path {
		t = stepType(t, el)
	}
	return t
}

func stepType(t types.Type, el PathEl) types.Type {
	switch u := t.Underlying().(type) {
	case *types.Struct:
		return u.Field(el.Field).Type()
	case *types.Array:
		return u.Elem()
	case *types.Slice: // array object root
		return u.Elem()
	}
	panic(fmt.Sprintf("stepType %s", t))
}

// heapAddr computes the heap-name prefix and index terms for a heap pointer.
func (e *Engine) heapAddr(p VPtr) (string, []*Term) {
	var b strings.Builder
	t := p.Root
	idx := []*Term{p.Ref}
	if _, ok := t.Underlying().(*types.Slice); ok {
		b.WriteString("[]" + e.typeKey(t.Underlying().(*types.Slice).Elem()))
	} else if _, ok := t.Underlying().(*types.Array); ok {
		b.WriteString("[]" + e.typeKey(t.Underlying().(*types.Array).Elem()))
	} else {
		b.WriteString(e.typeKey(t))
	}
	for _, el := range p.Path {
		switch u := t.Underlying().(type) {
		case *types.Struct:
			b.WriteString("." + u.Field(el.Field).Name())
		case *types.Array, *types.Slice:
			if len(idx) > 1 || t != p.Root {
				b.WriteString("[]")
			}
			idx = append(idx, el.Index)
		}
		t = stepType(t, el)
	}
	return b.String(), idx
}

func nestedSort(leaf string, dims int) string {
	s := leaf
	for i := 0; i < dims; i++ {
		s = ArrSort(s)
	}
	return s
}

func (st *State) heapGet(name, sort string) *Term {
	if t, ok := st.heap[name]; ok {
		if t.Sort != sort {
			panic(fmt.Sprintf("heap %s: sort %s vs %s", name, t.Sort, sort))
		}
		return t
	}
	for _, hn := range st.havocNames {
		if name == hn || strings.HasPrefix(name, hn+"#") {
			t := st.freshSym("mod:"+name, sort)
			st.heap[name] = t
			return t
		}
	}
	t := Sym("H0:"+name, sort)
	st.heap[name] = t
	return t
}

func selN(a *Term, idx []*Term) *Term {
	for _, i := range idx {
		a = Select(a, i)
	}
	return a
}

func storeN(a *Term, idx []*Term, v *Term) *Term {
	if len(idx) == 1 {
		return Store(a, idx[0], v)
	}
	inner := Select(a, idx[0])
	return Store(a, idx[0], storeN(inner, idx[1:], v))
}

// leafName: an array object's element heaps are named like a slice's ("[]T" + leaf), so a
// whole-array access through a pointer to the array drops the leading "[]" of the leaf path.
func leafName(p VPtr, prefix, path string) string {
	if len(p.Path) == 0 {
		if _, ok := p.Root.Underlying().(*types.Array); ok {
			return prefix + strings.TrimPrefix(path, "[]")
		}
	}
	return prefix + path
}

func (st *State) heapLoad(p VPtr, t types.Type) Val {
	prefix, idx := st.eng.heapAddr(p)
	ls := st.eng.leaves(t)
	ts := make([]*Term, len(ls))
	for i, l := range ls {
		name := leafName(p, prefix, l.Path)
		arr := st.heapGet(name, nestedSort(l.Sort, len(idx)))
		ts[i] = selN(arr, idx)
	}
	v, _ := st.eng.unflatten(t, ts)
	st.typeFacts(v, t)
	return v
}

func (st *State) heapStore(p VPtr, t types.Type, v Val) {
	prefix, idx := st.eng.heapAddr(p)
	ls := st.eng.leaves(t)
	ts := st.flatten(v, t)
	if len(ts) != len(ls) {
		panic(fmt.Sprintf("heapStore: %d leaves for %s, %d terms (%T)", len(ls), t, len(ts), v))
	}
	for i, l := range ls {
		name := leafName(p, prefix, l.Path)
		arr := st.heapGet(name, nestedSort(l.Sort, len(idx)))
		st.heapSet(name, storeN(arr, idx, ts[i]))
	}
}

func (st *State) heapSet(name string, t *Term) {
	st.heap[name] = t
	if st.written != nil {
		st.written[name] = true
		if st.lastHeap != nil {
			st.lastHeap[name] = t
		}
	}
}

// ---- cells (non-escaping locals) ----------------------------------------------------

func getPath(e *Engine, v Val, t types.Type, path []PathEl) Val {
	if len(path) == 0 {
		return v
	}
	el := path[0]
	switch x := v.(type) {
	case VStruct:
		u := x.T.Underlying().(*types.Struct)
		return getPath(e, x.F[el.Field], u.Field(el.Field).Type(), path[1:])
	case VArray:
		ts := make([]*Term, len(x.L))
		for i, a := range x.L {
			ts[i] = Select(a, el.Index)
		}
		ev, _ := e.unflatten(x.T.Elem(), ts)
		return getPath(e, ev, x.T.Elem(), path[1:])
	}
	panic(fmt.Sprintf("getPath %T", v))
}

func setPath(st *State, v Val, t types.Type, path []PathEl, nv Val) Val {
	if len(path) == 0 {
		return nv
	}
	el := path[0]
	switch x := v.(type) {
	case VStruct:
		u := x.T.Underlying().(*types.Struct)
		f := make([]Val, len(x.F))
		copy(f, x.F)
		f[el.Field] = setPath(st, x.F[el.Field], u.Field(el.Field).Type(), path[1:], nv)
		return VStruct{T: x.T, F: f}
	case VArray:
		ts := make([]*Term, len(x.L))
		for i, a := range x.L {
			ts[i] = Select(a, el.Index)
		}
		ev, _ := st.eng.unflatten(x.T.Elem(), ts)
		ev = setPath(st, ev, x.T.Elem(), path[1:], nv)
		nts := st.flatten(ev, x.T.Elem())
		l := make([]*Term, len(x.L))
		for i, a := range x.L {
			l[i] = Store(a, el.Index, nts[i])
		}
		return VArray{T: x.T, L: l}
	}
	panic(fmt.Sprintf("setPath %T", v))
}

func (st *State) load(p VPtr) Val {
	t := st.eng.pointee(p)
	if p.Alloc != nil {
		root := st.frames[p.Frame].cells[p.Alloc]
		if root == nil {
			root = st.eng.zeroVal(p.Root)
		}
		return getPath(st.eng, root, p.Root, p.Path)
	}
	return st.heapLoad(p, t)
}

func (st *State) store(p VPtr, v Val) {
	t := st.eng.pointee(p)
	if p.Alloc != nil {
		root := st.frames[p.Frame].cells[p.Alloc]
		if root == nil {
			root = st.eng.zeroVal(p.Root)
		}
		st.frames[p.Frame].cells[p.Alloc] = setPath(st, root, p.Root, p.Path, v)
		if st.writtenCells != nil {
			st.writtenCells[p.Alloc] = true
		}
		return
	}
	st.heapStore(p, t, v)
}

// bval is the abstraction of a byte slice's contents.
func (st *State) bval(s VSlice) *Term {
	arr := st.heapGet("[]"+st.eng.typeKey(s.Elem), ArrSort(ArrSort(SInt)))
	t := UF("bval", SInt, Select(arr, s.Arr), s.Off, s.Len)
	st.addFact(Eq(UF("blen", SInt, t), s.Len))
	st.addFact(Implies(Eq(s.Len, IntLit(0)), Eq(t, IntLit(0)))) // all empty byte strings are equal
	st.addFact(Implies(Eq(t, IntLit(0)), Eq(s.Len, IntLit(0))))
	return t
}

func isByteSlice(t types.Type) bool {
	s, ok := t.Underlying().(*types.Slice)
	if !ok {
		return false
	}
	b, ok := s.Elem().Underlying().(*types.Basic)
	return ok && b.Kind() == types.Uint8
}
