package main

// `gocv check`: decide one property on the current working tree of /repo.

import (
	"go/constant"
	"go/token"
	"go/types"
	"reflect"

	"crypto/sha256"
	"encoding/hex"
	"encoding/json"
	"flag"
	"fmt"
	"golang.org/x/tools/go/ssa"
	"os"
	"os/exec"
	"path/filepath"
	"sort"
	"strconv"
	"strings"
	"time"
)

type PropModule struct {
	Dir  string   `json:"dir"`  // relative to the repository root
	Pkgs []string `json:"pkgs"` // package patterns
}

type PropConfig struct {
	ID          string       `json:"id"`
	Modules     []PropModule `json:"modules"`
	Assumptions []string     `json:"assumptions"`
	Bounded     []string     `json:"bounded"`
	Note        string       `json:"note"`
}

type Finding struct {
	Property   string `json:"property"`
	Func       string `json:"func"`
	Obligation string `json:"obligation"`
	What       string `json:"what"`
	Replay     string `json:"replay,omitempty"`
}

type FindingsFile struct {
	Open  []Finding `json:"open"`
	Fixed []string  `json:"fixed"`
}

func loadProps() (map[string]*PropConfig, error) {
	b, err := os.ReadFile(filepath.Join(verifRoot(), "props.json"))
	if err != nil {
		return nil, err
	}
	var list []*PropConfig
	if err := json.Unmarshal(b, &list); err != nil {
		return nil, err
	}
	m := map[string]*PropConfig{}
	for _, p := range list {
		m[p.ID] = p
	}
	return m, nil
}

func loadFindings() *FindingsFile {
	ff := &FindingsFile{}
	b, err := os.ReadFile(filepath.Join(verifRoot(), "known_findings.json"))
	if err == nil {
		_ = json.Unmarshal(b, ff)
	}
	return ff
}

// propLabels: does contract c serve property id, and with which labels (nil = all)?
func propLabels(c *Contract, id string) (bool, map[string]bool) {
	for _, p := range c.Props {
		if p == id {
			return true, nil
		}
		if strings.HasPrefix(p, id+":") {
			ls := map[string]bool{}
			for _, l := range strings.Split(p[len(id)+1:], ",") {
				ls[strings.TrimSpace(l)] = true
			}
			return true, ls
		}
	}
	return false, nil
}

// labelServes: a filter lists the labels (or kind:<kind>) that serve the property, or - when every
// entry starts with '-' - the labels that do not.
func labelServes(ls map[string]bool, label, kind string) bool {
	if ls == nil {
		return true
	}
	if ls["-"+label] || ls["-kind:"+kind] {
		return false
	}
	incl := false
	for l := range ls {
		if !strings.HasPrefix(l, "-") {
			incl = true
		}
	}
	return !incl || ls[label] || ls["kind:"+kind]
}

type checkRun struct {
	id       string
	tier     string
	timeout  int
	results  []*FuncResult
	groups   []*OblGroup
	labels   map[string]map[string]bool // func key -> label filter
	engErrs  []string
	files    []string
	ssaHash  map[string]string
	contract map[string]*Contract
	fns      map[string]*ssa.Function
	rebound  []string // contracts that followed a function to a new name (rebindFunctions)
}

func sanitize(s string) string {
	return strings.Map(func(r rune) rune {
		switch {
		case r >= 'a' && r <= 'z', r >= 'A' && r <= 'Z', r >= '0' && r <= '9', r == '-', r == '_', r == '.':
			return r
		}
		return '_'
	}, s)
}

func shortFunc(k string) string {
	if i := strings.LastIndex(k, "/"); i >= 0 {
		return k[i+1:]
	}
	return k
}

func runProperty(id, tier string, timeout int, overlay map[string][]byte, only string) (*checkRun, error) {
	props, err := loadProps()
	if err != nil {
		return nil, err
	}
	pc := props[id]
	if pc == nil {
		return nil, fmt.Errorf("property %s is not configured in props.json", id)
	}
	run := &checkRun{id: id, tier: tier, timeout: timeout, labels: map[string]map[string]bool{}, ssaHash: map[string]string{}, contract: map[string]*Contract{}, fns: map[string]*ssa.Function{}}
	tmp, err := os.MkdirTemp("/var/tmp", "gocv")
	if err != nil {
		return nil, err
	}
	defer os.RemoveAll(tmp)
	solver := NewSolver(tmp, timeout)
	unbound, bound := map[string]string{}, map[string]bool{}
	for _, pm := range pc.Modules {
		e := NewEngine()
		dir := filepath.Join(repoRoot(), pm.Dir)
		if err := e.Load(dir, overlay, pm.Pkgs...); err != nil {
			return nil, fmt.Errorf("load %s: %v", dir, err)
		}
		if err := loadSpecs(e, e.moduleDir); err != nil {
			return nil, fmt.Errorf("contracts: %v", err)
		}
		run.files = append(run.files, e.db.Files...)
		run.rebound = append(run.rebound, e.rebindNotes...)
		for _, dc := range e.db.Distinct {
			serves := false
			for _, p := range dc.Props {
				if p == id {
					serves = true
				}
			}
			if serves && only == "" {
				run.results = append(run.results, e.checkDistinct(dc))
			}
		}
		for _, rc := range e.db.RecvOnly {
			serves := false
			for _, p := range rc.Props {
				if p == id {
					serves = true
				}
			}
			if serves && (only == "" || strings.Contains(rc.Chan, only)) {
				run.results = append(run.results, e.checkRecvOnly(rc))
			}
		}
		for _, ng := range e.db.NoGlobals {
			serves := false
			for _, p := range ng.Props {
				if p == id {
					serves = true
				}
			}
			if serves && (only == "" || strings.Contains("noglobals", only)) {
				run.results = append(run.results, e.checkNoGlobals(ng))
			}
		}
		for _, fm := range e.db.FlagMaps {
			serves := false
			for _, p := range fm.Props {
				if p == id {
					serves = true
				}
			}
			if serves && (only == "" || strings.Contains(fm.Type, only) || strings.Contains("flagmap", only)) {
				run.results = append(run.results, e.checkFlagMap(fm))
			}
		}
		for _, mc := range e.db.MethodSets {
			serves := false
			for _, p := range mc.Props {
				if p == id {
					serves = true
				}
			}
			if !serves || (only != "" && !strings.Contains(mc.Name, only)) {
				continue
			}
			run.results = append(run.results, e.checkMethodSet(mc))
		}
		for _, k := range e.db.SortedKeys() {
			con := e.db.Contracts[k]
			ok, labels := propLabels(con, id)
			if !ok || con.Trusted {
				continue
			}
			if only != "" && !strings.Contains(k, only) {
				continue
			}
			fn := e.fnByKey[k]
			if fn == nil || fn.Blocks == nil {
				// a contract of a package that this module only imports: its body is verified when
				// that package's own module is loaded (it must be, see below)
				if _, seen := unbound[k]; !seen {
					unbound[k] = fmt.Sprintf("contract %s (%s:%d) does not bind to a function with a body", k, filepath.Base(con.File), con.Line)
				}
				continue
			}
			bound[k] = true
			run.labels[k] = labels
			run.contract[k] = con
			run.fns[k] = fn
			r := e.VerifyFunc(fn, con)
			if labels != nil {
				// only the clauses that serve this property are discharged
				kept := r.Obls[:0]
				for _, o := range r.Obls {
					if o.Kind == "cover" || labelServes(labels, o.Label, o.Kind) {
						kept = append(kept, o)
					}
				}
				r.Obls = kept
			}
			h := sha256.New()
			fn.WriteTo(h)
			run.ssaHash[k] = hex.EncodeToString(h.Sum(nil))[:16]
			if r.EngineErr != "" {
				run.engErrs = append(run.engErrs, k+": "+r.EngineErr)
			}
			run.results = append(run.results, r)
		}
	}
	for _, k := range sortedKeys(unbound) {
		if !bound[k] {
			run.engErrs = append(run.engErrs, unbound[k])
		}
	}
	Discharge(solver, run.results, nil)
	for _, g := range GroupObligations(run.results) {
		if ls := run.labels[g.Func]; ls != nil && g.Kind != "cover" && !labelServes(ls, g.Label, g.Kind) {
			continue
		}
		run.groups = append(run.groups, g)
	}
	return run, nil
}

func cmdCheck(args []string) {
	fs := flag.NewFlagSet("check", flag.ExitOnError)
	id := fs.String("property", "", "property id")
	tier := fs.String("tier", "", "quick | thorough")
	only := fs.String("func", "", "development: only functions whose key contains this")
	verbose := fs.Bool("v", false, "list every obligation")
	fs.Parse(args)
	if *tier == "" {
		*tier = os.Getenv("VERIF_TIER")
	}
	if *tier == "" {
		*tier = "quick"
	}
	seed, _ := strconv.Atoi(os.Getenv("VERIF_SEED"))
	timeout := 6
	if *tier == "thorough" {
		timeout = 60
	}
	t0 := time.Now()
	run, err := runProperty(*id, *tier, timeout, nil, *only)
	if err != nil {
		fmt.Fprintln(os.Stderr, "ENGINE-ERROR:", err)
		os.Exit(2)
	}
	ff := loadFindings()
	known := map[string]Finding{}
	for _, f := range ff.Open {
		if f.Property == *id {
			known[f.Func+"#"+f.Obligation] = f
		}
	}
	// A listed finding names its site by ordinal (`@Return#9`, `@after SaveBlockData#1`). When the
	// function now has another number of sites of that kind than when the finding was recorded
	// (bindings.json), the ordinals may have moved: a failing obligation of the same clause at a
	// site of the same kind is then matched with a listed finding whose own site no longer exists
	// in this run - one for one, so a further failing site is still reported.
	bindBase := loadBindingBase()
	siteKindOf := func(name string) (stem, kind string) {
		name = canonSite(name)
		i := strings.LastIndex(name, "#")
		if i < 0 {
			return name, ""
		}
		stem = name[:i]
		kind = stem
		if j := strings.LastIndex(stem, "@"); j >= 0 {
			kind = strings.TrimPrefix(stem[j+1:], "after ")
		}
		return stem, kind
	}
	isShifted := func(g *OblGroup) bool {
		_, kind := siteKindOf(g.Name)
		if kind == "" {
			return false
		}
		var fn *ssa.Function
		if run.fns != nil {
			fn = run.fns[g.Func]
		}
		return siteShifted(bindBase, g.Func, fn, kind) || strings.Contains(g.Name, "/")
	}
	shiftedKnown := func(g *OblGroup) (string, bool) {
		stem, _ := siteKindOf(g.Name)
		var cands []string
		for k, f := range known {
			if f.Func != g.Func {
				continue
			}
			if ks, _ := siteKindOf(f.Obligation); ks == stem {
				cands = append(cands, k)
			}
		}
		if len(cands) == 0 {
			return "", false
		}
		sort.Strings(cands)
		return cands[0], true
	}
	root := verifRoot()
	evDir := filepath.Join(root, "evidence")
	if d := os.Getenv("VERIF_EVIDENCE"); d != "" {
		evDir = d // development (seed evaluation): keep /verif/evidence describing the unchanged tree
	}
	replayDir := filepath.Join(evDir, "replays", *id)
	os.RemoveAll(replayDir)
	violations := 0
	obligations, discharged := 0, 0
	dischargedBounded := 0
	boundedFuncs := map[string]bool{}
	for _, r := range run.results {
		if len(r.Bounded) > 0 {
			boundedFuncs[r.Key] = true
		}
	}
	var excluded []string
	var samples []any
	backends := map[string]int{}
	solverS := 0.0
	covers := 0
	for _, g := range run.groups {
		for b, n := range g.Backend {
			backends[b] += n
		}
		solverS += g.Seconds
		if g.Kind == "cover" {
			covers++
			if !g.OK {
				run.engErrs = append(run.engErrs, fmt.Sprintf("vacuity: %s # %s is unreachable under the assumed clauses", g.Func, g.Name))
			}
			continue
		}
		key := g.Func + "#" + canonSite(g.Name)
		if *verbose {
			st := "ok"
			if !g.OK {
				st = "FAILED"
			}
			fmt.Printf("%-6s %s # %s (%d paths, %.2fs)\n", st, shortFunc(g.Func), g.Name, g.Paths, g.Seconds)
		}
		if isShifted(g) {
			// the ordinals of this kind of site may have moved (or the site now lies in a helper):
			// a failing obligation of the same clause at such a site is matched with a listed
			// finding one for one; a discharged one says nothing about the listed ones
			if !g.OK {
				if k, ok := shiftedKnown(g); ok {
					f := known[k]
					fmt.Printf("KNOWN-FINDING: property=%s %s [%s # %s; recorded as %s - the function's sites were renumbered]\n", *id, f.What, shortFunc(g.Func), g.Name, f.Obligation)
					excluded = append(excluded, key)
					delete(known, k)
					continue
				}
			}
		} else if f, isKnown := known[key]; isKnown {
			if g.OK {
				fmt.Printf("NOTE: known finding no longer reproduces (obligation now discharges): %s\n", key)
				obligations++
				discharged++
			} else {
				fmt.Printf("KNOWN-FINDING: property=%s %s [%s # %s]\n", *id, f.What, shortFunc(g.Func), g.Name)
				excluded = append(excluded, key)
			}
			delete(known, key)
			continue
		}
		obligations++
		if g.OK {
			if boundedFuncs[g.Func] {
				// decided only up to the unrolling bound of a loop in an unknown helper: not a proof
				dischargedBounded++
			} else {
				discharged++
			}
			continue
		}
		violations++
		os.MkdirAll(replayDir, 0o755)
		path := filepath.Join(replayDir, sanitize(shortFunc(g.Func)+"__"+g.Name)+".txt")
		tail := writeReplay(path, *id, g, run)
		fmt.Printf("VIOLATION property=%s replay=%s obligation=%s#%s %s\n", *id, path, shortFunc(g.Func), strings.ReplaceAll(g.Name, " ", "_"), tail)
	}
	for key, f := range known {
		// a listed finding whose obligation was not generated at all: the contract or code moved
		fmt.Printf("NOTE: known finding not matched by any obligation of this run: %s (%s)\n", key, f.What)
	}
	// samples: a few obligations with their full query text
	ns := 0
	for _, r := range run.results {
		for _, o := range r.Obls {
			if o.Query != "" && !o.Cover && ns < 3 && (len(r.Obls) < 4 || (ns+seed)%2 == 0 || ns == 0) {
				q := o.Query
				if len(q) > 6000 {
					q = q[:6000] + "\n; ... truncated"
				}
				samples = append(samples, map[string]any{"function": r.Key, "obligation": o.Name, "clause_at": o.Where, "path": o.Trail, "status": o.Res.Status, "backend": o.Res.Backend, "seconds": o.Res.Seconds, "smtlib": q})
				ns++
			}
		}
	}
	var funcs []any
	unmodelled := map[string]int{}
	assumed := map[string]int{}
	notes := map[string]int{}
	inlined := map[string]int{}
	paths := 0
	boundedDyn := map[string]bool{}
	for _, r := range run.results {
		funcs = append(funcs, map[string]any{"function": r.Key, "ssa_sha256_16": run.ssaHash[r.Key], "paths": r.Paths, "path_obligations": len(r.Obls), "symex_seconds": r.Seconds})
		paths += r.Paths
		for k, v := range r.Unmodelled {
			unmodelled[k] += v
		}
		for k, v := range r.Assumed {
			assumed[k] += v
		}
		for k, v := range r.Notes {
			notes[k] += v
		}
		for k, v := range r.Inlined {
			inlined[k] += v
		}
		for k := range r.Bounded {
			boundedDyn[r.Key+": "+k] = true
		}
	}
	props, _ := loadProps()
	pc := props[*id]
	assumptions := append([]string{}, pc.Assumptions...)
	assumptions = append(assumptions,
		"arithmetic: Go integers are SMT Int; unsigned + - * and conversions wrap modulo 2^n explicitly; signed overflow is assumed absent unless an obligation says otherwise",
		"memory: Burstall-Bornat heap per field; append allocates a fresh backing array (no aliasing through spare capacity); interior pointers stored as data lose identity",
		"concurrency: one sequential schedule per function; Lock/Unlock are no-ops; go statements are not executed",
		"implicit run-time checks (nil dereference, index, slice bounds, division) are assumed to pass except in functions whose contract says nopanic",
		"the VC generator itself (gocv), go/ssa naive form, and the SMT solvers are trusted",
	)
	var trusted []string
	for _, k := range sortedKeys(assumed) {
		trusted = append(trusted, fmt.Sprintf("%s (used %d times)", k, assumed[k]))
	}
	for _, k := range sortedKeys(unmodelled) {
		trusted = append(trusted, fmt.Sprintf("unmodelled call, result unconstrained and assumed not to touch modelled state: %s (x%d)", k, unmodelled[k]))
	}
	if trusted == nil {
		trusted = []string{}
	}
	var noteList []string
	unframed := map[string]int{} // "<type> inside <loop>" -> number of fields
	for _, k := range sortedKeys(notes) {
		if strings.HasPrefix(k, "heap ") && strings.Contains(k, " is written by an uncontracted callee inside ") {
			rest := strings.TrimPrefix(k, "heap ")
			name := rest[:strings.Index(rest, " is written")]
			where := rest[strings.Index(rest, "inside ")+len("inside "):]
			typ := name
			if i := strings.Index(name, "."); i >= 0 {
				if j := strings.Index(name[i+1:], "."); j >= 0 {
					typ = name[:i+1+j]
				}
			}
			unframed[typ+" inside "+strings.TrimSuffix(where, ": not framed")]++
			continue
		}
		noteList = append(noteList, fmt.Sprintf("%s (x%d)", k, notes[k]))
	}
	for _, n := range run.rebound {
		noteList = append(noteList, n)
	}
	for _, k := range sortedKeys(unframed) {
		noteList = append(noteList, fmt.Sprintf("%d heap arrays of %s are written by an uncontracted callee through a pointer argument: not framed", unframed[k], k))
	}
	var inl []string
	for _, k := range sortedKeys(inlined) {
		inl = append(inl, fmt.Sprintf("%s (x%d)", k, inlined[k]))
	}
	sort.Strings(excluded)
	boundedList := append([]string{}, pc.Bounded...)
	for _, k := range sortedKeysB(boundedDyn) {
		boundedList = append(boundedList, k)
		fmt.Printf("NOTE bounded (not counted as proved): %s\n", k)
	}
	level := "proof"
	ev := map[string]any{
		"property_id": *id,
		"tier":        *tier,
		"seed":        seed,
		"level":       level,
		"coverage": map[string]any{
			"obligations":              obligations,
			"discharged":               discharged,
			"held_up_to_bound_only":    dischargedBounded,
			"checker_cmd":              fmt.Sprintf("bin/gocv check -property %s -tier %s (per-path SMT-LIB queries generated from go/ssa of /repo's working tree; z3 5.1.0, cvc5 1.0.x, z3 4.8.12 raced, %ds cap)", *id, *tier, timeout),
			"trusted_base":             trusted,
			"samples":                  samples,
			"functions_under_contract": funcs,
			"paths_explored":           paths,
			"path_queries":             countQueries(run),
			"reachability_covers":      covers,
			"backend_answers":          backends,
			"solver_seconds":           solverS,
			"inlined_callees":          inl,
			"engine_notes":             noteList,
			"excluded_known_findings":  excluded,
			"bounded_stand_ins":        boundedList,
			"contract_files":           run.files,
			"explanation":              "obligations = named proof obligations (one per clause and site, each checked on every path that reaches it) generated from the current source; discharged = those for which every path query is unsat (held_up_to_bound_only = those of functions for which a bounded stand-in had to be used, listed under bounded_stand_ins: not counted as discharged). Obligations listed under excluded_known_findings fail for a recorded genuine defect and are not counted.",
		},
		"assumptions": assumptions,
		"wall_s":      time.Since(t0).Seconds(),
		"violations":  violations,
	}
	if *tier == "thorough" && *only == "" {
		// (1) replay the recorded findings of this property on the real code: a repaired one
		// must pass (it is reported again if it ever returns), an open one is expected to fail
		var reps []any
		for _, fe := range loadFindingIndex() {
			serves := false
			for _, p := range fe.Property {
				if p == *id {
					serves = true
				}
			}
			if !serves {
				continue
			}
			out, passed := runFindingReplay(fe)
			res := "fails"
			if passed {
				res = "passes"
			}
			reps = append(reps, map[string]any{"finding": fe.ID, "status": fe.Status, "test": fe.Test, "result": res})
			switch {
			case fe.Status == "fixed" && !passed:
				violations++
				fmt.Printf("VIOLATION property=%s replay=%s finding=%s (a repaired defect is back: the replay test fails on the real code)\n%s\n", *id, filepath.Join(root, fe.File), fe.ID, tailLines(out, 6))
			case fe.Status != "fixed" && passed:
				fmt.Printf("NOTE: the replay of open finding %s passes now\n", fe.ID)
			}
		}
		// (2) the must-fail corpus of this property: every deliberately broken body has to fail a
		// named obligation (guards against vacuous contracts and engine regressions)
		caught, total, msgs := runMutants(*id, "", false)
		for _, m := range msgs {
			fmt.Println("SELFTEST-MISS:", m)
		}
		ev["thorough"] = map[string]any{"finding_replays": reps, "mutants_total": total, "mutants_caught": caught, "mutants_missed": msgs}
		ev["violations"] = violations
		fmt.Printf("%s thorough extras: %d finding replays, %d/%d seeded mutants caught\n", *id, len(reps), caught, total)
	}
	if len(run.engErrs) > 0 {
		for _, e := range run.engErrs {
			fmt.Fprintln(os.Stderr, "ENGINE-ERROR:", e)
		}
		if violations == 0 {
			os.Exit(2)
		}
		// with failed obligations the engine errors (typically unreachable code after a failed
		// invariant) are consequences: the run is reported as a violation
	}
	if obligations == 0 {
		fmt.Fprintln(os.Stderr, "ENGINE-ERROR: no obligations generated for", *id)
		os.Exit(2)
	}
	os.MkdirAll(evDir, 0o755)
	b, _ := json.MarshalIndent(ev, "", " ")
	if err := os.WriteFile(filepath.Join(evDir, *id+".json"), b, 0o644); err != nil {
		fmt.Fprintln(os.Stderr, "ENGINE-ERROR:", err)
		os.Exit(2)
	}
	extra := ""
	if dischargedBounded > 0 {
		extra = fmt.Sprintf(" (+%d held up to a bound only)", dischargedBounded)
	}
	fmt.Printf("%s %s: %d obligations, %d discharged%s, %d known findings, %d violations, %d functions, %d paths, %.1fs\n",
		*id, *tier, obligations, discharged, extra, len(excluded), violations, len(run.results), paths, time.Since(t0).Seconds())
	if violations > 0 {
		os.Exit(1)
	}
}

func countQueries(run *checkRun) int {
	n := 0
	for _, r := range run.results {
		n += len(r.Obls)
	}
	return n
}

// writeReplay writes the replay file for a failed obligation and returns the VIOLATION suffix.
func writeReplay(path, id string, g *OblGroup, run *checkRun) string {
	var b strings.Builder
	fmt.Fprintf(&b, "property: %s\nfunction: %s\nobligation: %s\nclause at: %s\nfailing paths: %d of %d\n", id, g.Func, g.Name, g.Where, len(g.Failed), g.Paths)
	if c := run.contract[g.Func]; c != nil {
		for _, cl := range append(append(append([]*Clause{}, c.Ensures...), c.Requires...), c.CrashInv...) {
			if cl.Label == g.Label {
				fmt.Fprintf(&b, "clause [%s]: %s\n", cl.Label, cl.Text)
			}
		}
		for _, cls := range c.LoopInv {
			for _, cl := range cls {
				if cl.Label == g.Label {
					fmt.Fprintf(&b, "loop invariant [%s]: %s\n", cl.Label, cl.Text)
				}
			}
		}
	}
	model := false
	for i, o := range g.Failed {
		if i >= 3 {
			break
		}
		fmt.Fprintf(&b, "\n--- failing path %d: %s\n", i+1, o.Trail)
		if o.Res != nil {
			fmt.Fprintf(&b, "solver: %s answered %s in %.2fs\n", o.Res.Backend, o.Res.Status, o.Res.Seconds)
			out := o.Res.Output
			if len(out) > 8000 {
				out = out[:8000] + "\n... truncated"
			}
			fmt.Fprintf(&b, "solver output (model of the function's inputs where sat):\n%s\n", out)
			if strings.HasPrefix(o.Res.Status, "sat") {
				model = true
			}
		}
		if i == 0 {
			q := o.Query
			if len(q) > 20000 {
				q = q[:20000] + "\n; ... truncated"
			}
			fmt.Fprintf(&b, "query:\n%s\n", q)
		}
	}
	tail := "no-failing-input-found"
	if model {
		if ok, text := tryReplay(id, g, run); text != "" {
			fmt.Fprintf(&b, "\n--- replay on the real code\n%s\n", text)
			if ok {
				tail = "replayed-on-real-code"
			}
		}
	}
	fmt.Fprintf(&b, "\nresult: %s\n", tail)
	os.WriteFile(path, []byte(b.String()), 0o644)
	return tail
}

func cmdReplay(args []string) {
	if len(args) < 1 {
		usage()
	}
	b, err := os.ReadFile(args[0])
	if err != nil {
		fmt.Fprintln(os.Stderr, err)
		os.Exit(2)
	}
	os.Stdout.Write(b)
}

// checkMethodSet resolves a method through the method set of *T the way an interface call
// does, and requires it to be declared on the expected type (a ground obligation decided by
// go/types, not by SMT).
func (e *Engine) checkMethodSet(mc *MethodSetCheck) *FuncResult {
	key := mc.Pkg + "." + mc.Recv + "." + mc.Name + "$methodset"
	res := &FuncResult{Key: key, Unmodelled: map[string]int{}, Assumed: map[string]int{}, Notes: map[string]int{}, Inlined: map[string]int{}}
	o := &Obligation{Func: key, Name: "ground[declared-on " + mc.DeclaredOn + "]", Kind: "ground", Label: "declared-on", Where: mc.Where, Goal: tTrue}
	res.Obls = []*Obligation{o}
	p := e.allPkgs[mc.Pkg]
	msg := ""
	if p == nil || p.Types == nil {
		msg = "package not loaded"
	} else if obj := p.Types.Scope().Lookup(mc.Recv); obj == nil {
		msg = "type " + mc.Recv + " not found"
	} else {
		ms := types.NewMethodSet(types.NewPointer(obj.Type()))
		sel := ms.Lookup(p.Types, mc.Name)
		if sel == nil {
			msg = "method " + mc.Name + " is not in the method set of *" + mc.Recv
		} else {
			fn := sel.Obj().(*types.Func)
			recv := fn.Type().(*types.Signature).Recv()
			n := namedOf(recv.Type())
			if n == nil || n.Obj().Name() != mc.DeclaredOn || len(sel.Index()) != 1 {
				got := "?"
				if n != nil {
					got = n.Obj().Name()
				}
				msg = fmt.Sprintf("(*%s).%s resolves to the method promoted from %s, not to one declared on %s", mc.Recv, mc.Name, got, mc.DeclaredOn)
			}
		}
	}
	if msg == "" {
		o.Res = &SolveResult{Status: "unsat", Backend: "go/types"}
	} else {
		o.Res = &SolveResult{Status: "sat", Backend: "go/types", Output: msg}
		o.Query = "; " + msg
	}
	return res
}

// checkRecvOnly scans every function of the package for receives from the named channel
// field (plain receives, select cases, range) and requires them to be in the listed functions.
func (e *Engine) checkRecvOnly(rc *RecvOnlyCheck) *FuncResult {
	key := rc.Pkg + "." + rc.Chan + "$recvonly"
	res := &FuncResult{Key: key, Unmodelled: map[string]int{}, Assumed: map[string]int{}, Notes: map[string]int{}, Inlined: map[string]int{}}
	o := &Obligation{Func: key, Name: "ground[receivers of " + rc.Chan + "]", Kind: "ground", Label: "receivers", Where: rc.Where, Goal: tTrue}
	res.Obls = []*Obligation{o}
	allowed := map[string]bool{}
	for _, f := range rc.Funcs {
		allowed[f] = true
	}
	x := &Explorer{eng: e}
	var bad []string
	for k, fn := range e.fnByKey {
		if !strings.HasPrefix(k, rc.Pkg+".") || fn.Blocks == nil {
			continue
		}
		name := fn.Name()
		for p := fn.Parent(); p != nil; p = p.Parent() {
			name = p.Name()
		}
		fr := &Frame{fn: fn}
		for _, b := range fn.Blocks {
			for _, ins := range b.Instrs {
				var chans []ssa.Value
				switch i := ins.(type) {
				case *ssa.UnOp:
					if i.Op == token.ARROW {
						chans = append(chans, i.X)
					}
				case *ssa.Select:
					for _, s := range i.States {
						if s.Dir == types.RecvOnly {
							chans = append(chans, s.Chan)
						}
					}
				case *ssa.Range:
					if _, ok := i.X.Type().Underlying().(*types.Chan); ok {
						chans = append(chans, i.X)
					}
				}
				for _, c := range chans {
					if x.chanExprName(fr, c) == rc.Chan && !allowed[name] {
						bad = append(bad, name+" ("+e.posStr(ins.Pos())+")")
					}
				}
			}
		}
	}
	if len(bad) == 0 {
		o.Res = &SolveResult{Status: "unsat", Backend: "go/ssa scan"}
	} else {
		sort.Strings(bad)
		msg := "receives from " + rc.Chan + " outside " + strings.Join(rc.Funcs, ", ") + ": " + strings.Join(bad, "; ")
		o.Res = &SolveResult{Status: "sat", Backend: "go/ssa scan", Output: msg}
		o.Query = "; " + msg
	}
	return res
}

// checkDistinct: pairwise distinct constant values (ground obligation decided by go/constant).
func (e *Engine) checkDistinct(dc *DistinctCheck) *FuncResult {
	key := dc.Pkg + "." + strings.Join(dc.Names, ",") + "$distinct"
	res := &FuncResult{Key: key, Unmodelled: map[string]int{}, Assumed: map[string]int{}, Notes: map[string]int{}, Inlined: map[string]int{}}
	o := &Obligation{Func: key, Name: "ground[pairwise distinct]", Kind: "ground", Label: "distinct", Where: dc.Where, Goal: tTrue}
	res.Obls = []*Obligation{o}
	msg := ""
	p := e.allPkgs[dc.Pkg]
	seen := map[string]string{}
	if p == nil || p.Types == nil {
		msg = "package not loaded"
	} else {
		for _, n := range dc.Names {
			obj, ok := p.Types.Scope().Lookup(n).(*types.Const)
			if !ok {
				msg = "constant " + n + " not found"
				break
			}
			v := obj.Val().ExactString()
			if other, dup := seen[v]; dup {
				msg = fmt.Sprintf("constants %s and %s have the same value %s", other, n, v)
				break
			}
			seen[v] = n
		}
	}
	if msg == "" {
		o.Res = &SolveResult{Status: "unsat", Backend: "go/constant"}
	} else {
		o.Res = &SolveResult{Status: "sat", Backend: "go/constant", Output: msg}
		o.Query = "; " + msg
	}
	return res
}

// ---- flagmap: command-line flags against the configuration struct ------------------------------

type cfgLeaf struct {
	typ   types.Type
	yaml  string
	field string
}

func tagKey(tag, key, fieldName string) string {
	v := reflect.StructTag(tag).Get(key)
	if i := strings.Index(v, ","); i >= 0 {
		v = v[:i]
	}
	if v == "" {
		return strings.ToLower(fieldName) // both decoders fall back to the (case-folded) field name
	}
	return v
}

// cfgLeaves walks a configuration struct the way mapstructure does: nested structs (and
// pointers to them) whose fields carry mapstructure/yaml tags are sections, everything else
// is a leaf option.
func cfgLeaves(t types.Type, mpath, ypath, fpath string, out map[string]cfgLeaf, skipped *[]string) {
	st, ok := t.Underlying().(*types.Struct)
	if !ok {
		return
	}
	for i := 0; i < st.NumFields(); i++ {
		f := st.Field(i)
		if !f.Exported() {
			continue
		}
		mk, yk := tagKey(st.Tag(i), "mapstructure", f.Name()), tagKey(st.Tag(i), "yaml", f.Name())
		name := fpath + "." + f.Name()
		if mk == "-" {
			if yk != "-" {
				out["-"+name] = cfgLeaf{typ: f.Type(), yaml: join(ypath, yk), field: name}
			}
			*skipped = append(*skipped, strings.TrimPrefix(name, "."))
			continue
		}
		ft := f.Type()
		if p, isPtr := ft.Underlying().(*types.Pointer); isPtr {
			ft = p.Elem()
		}
		if sub, isStruct := ft.Underlying().(*types.Struct); isStruct && hasConfigTags(sub) {
			cfgLeaves(ft, join(mpath, mk), join(ypath, yk), name, out, skipped)
			continue
		}
		out[join(mpath, mk)] = cfgLeaf{typ: ft, yaml: join(ypath, yk), field: strings.TrimPrefix(name, ".")}
	}
}

func join(a, b string) string {
	if a == "" {
		return b
	}
	return a + "." + b
}

func hasConfigTags(st *types.Struct) bool {
	for i := 0; i < st.NumFields(); i++ {
		tg := reflect.StructTag(st.Tag(i))
		if tg.Get("mapstructure") != "" || tg.Get("yaml") != "" {
			return true
		}
	}
	return false
}

// flagKindFits: the pflag registration method against the field type.
func flagKindFits(method string, t types.Type) bool {
	under := t.Underlying()
	isDur := func(t types.Type) bool {
		n := namedOf(t)
		return n != nil && n.Obj().Pkg() != nil && n.Obj().Pkg().Path() == "time" && n.Obj().Name() == "Duration"
	}
	switch strings.TrimSuffix(method, "P") {
	case "String":
		b, ok := under.(*types.Basic)
		return ok && b.Kind() == types.String
	case "Bool":
		b, ok := under.(*types.Basic)
		return ok && b.Kind() == types.Bool
	case "Int":
		b, ok := under.(*types.Basic)
		return ok && b.Kind() == types.Int
	case "Int64":
		b, ok := under.(*types.Basic)
		return ok && b.Kind() == types.Int64 && !isDur(t)
	case "Uint":
		b, ok := under.(*types.Basic)
		return ok && b.Kind() == types.Uint
	case "Uint64":
		b, ok := under.(*types.Basic)
		return ok && b.Kind() == types.Uint64
	case "Uint32":
		b, ok := under.(*types.Basic)
		return ok && b.Kind() == types.Uint32
	case "Float64":
		b, ok := under.(*types.Basic)
		return ok && b.Kind() == types.Float64
	case "Duration":
		if isDur(t) {
			return true
		}
		if st, ok := under.(*types.Struct); ok && st.NumFields() == 1 && st.Field(0).Embedded() && isDur(st.Field(0).Type()) {
			return true // a wrapper that embeds time.Duration (decoded by the duration hook)
		}
		return false
	case "StringSlice":
		sl, ok := under.(*types.Slice)
		if !ok {
			return false
		}
		b, ok := sl.Elem().Underlying().(*types.Basic)
		return ok && b.Kind() == types.String
	}
	return false
}

func (e *Engine) checkFlagMap(fm *FlagMapCheck) *FuncResult {
	key := fm.Pkg + "." + fm.Type + "$flagmap"
	res := &FuncResult{Key: key, Unmodelled: map[string]int{}, Assumed: map[string]int{}, Notes: map[string]int{}, Inlined: map[string]int{}}
	add := func(name, label, msg string) {
		o := &Obligation{Func: key, Name: "ground[" + name + "]", Kind: "ground", Label: label, Where: fm.Where, Goal: tTrue}
		if msg == "" {
			o.Res = &SolveResult{Status: "unsat", Backend: "go/types"}
		} else {
			o.Res = &SolveResult{Status: "sat", Backend: "go/types", Output: msg}
			o.Query = "; " + msg
		}
		res.Obls = append(res.Obls, o)
	}
	p := e.allPkgs[fm.Pkg]
	if p == nil || p.Types == nil {
		add("config-type", "config-type", "package not loaded")
		return res
	}
	obj := p.Types.Scope().Lookup(fm.Type)
	if obj == nil {
		add("config-type", "config-type", "type "+fm.Type+" not found")
		return res
	}
	leaves := map[string]cfgLeaf{}
	var skipped []string
	cfgLeaves(obj.Type(), "", "", "", leaves, &skipped)
	if len(leaves) == 0 {
		add("config-type", "config-type", "no option found in "+fm.Type)
		return res
	}
	// every option has the same key in the file that is written and in the file that is read
	for _, k := range sortedKeys(leaves) {
		l := leaves[k]
		if strings.HasPrefix(k, "-") {
			add("yaml-eq-mapstructure:"+l.field, "yaml-eq-mapstructure", fmt.Sprintf("field %s is written to the file under %q but never read back (mapstructure:\"-\")", l.field, l.yaml))
			continue
		}
		msg := ""
		if l.yaml != k {
			msg = fmt.Sprintf("field %s is written to the file as %q but read from it as %q", l.field, l.yaml, k)
		}
		add("yaml-eq-mapstructure:"+k, "yaml-eq-mapstructure", msg)
	}
	// the flags registered by the listed functions
	exempt := map[string]bool{}
	for _, x := range fm.Exempt {
		exempt[x] = true
	}
	type reg struct {
		name, method, where string
		def                 ssa.Value
	}
	var regs []reg
	nonConst := 0
	for _, fname := range fm.Funcs {
		fn := e.fnByKey[fm.Pkg+"."+fname]
		if fn == nil || fn.Blocks == nil {
			add("flags-of:"+fname, "flags-of", "function "+fname+" not found")
			continue
		}
		n := 0
		for _, b := range fn.Blocks {
			for _, ins := range b.Instrs {
				call, ok := ins.(ssa.CallInstruction)
				if !ok {
					continue
				}
				cc := call.Common()
				callee := cc.StaticCallee()
				if callee == nil || callee.Signature.Recv() == nil {
					continue
				}
				rn := namedOf(callee.Signature.Recv().Type())
				if rn == nil || rn.Obj().Name() != "FlagSet" || rn.Obj().Pkg() == nil || !strings.HasSuffix(rn.Obj().Pkg().Path(), "spf13/pflag") {
					continue
				}
				sig := callee.Signature
				if sig.Params().Len() < 3 || sig.Params().At(0).Name() != "name" {
					continue // not a registration (Lookup, Set, ...)
				}
				n++
				c, isConst := cc.Args[1].(*ssa.Const)
				if !isConst || c.Value == nil || c.Value.Kind() != constant.String {
					nonConst++
					continue
				}
				regs = append(regs, reg{constant.StringVal(c.Value), callee.Name(), e.prog.Fset.Position(ins.Pos()).String(), cc.Args[2]})
			}
		}
		msg := ""
		if n == 0 {
			msg = fname + " registers no flag"
		}
		add("flags-of:"+fname, "flags-of", msg)
	}
	msg := ""
	if nonConst > 0 {
		msg = fmt.Sprintf("%d flag registration(s) with a name that is not a constant", nonConst)
	}
	add("flag-names-constant", "flag-names-constant", msg)
	sort.Slice(regs, func(i, j int) bool { return regs[i].name < regs[j].name })
	seen := map[string]bool{}
	for _, r := range regs {
		if seen[r.name] {
			add("flag-registered-once:"+r.name, "flag-registered-once", "flag "+r.name+" is registered twice")
			continue
		}
		seen[r.name] = true
		if exempt[r.name] {
			continue
		}
		stripped := strings.TrimPrefix(r.name, fm.Strip)
		l, ok := leaves[stripped]
		switch {
		case !ok:
			add("flag-reaches-field:"+r.name, "flag-reaches-field", fmt.Sprintf("flag --%s is accepted, but the decoder has no option with key %q: its value is silently ignored", r.name, stripped))
		case !flagKindFits(r.method, l.typ):
			add("flag-reaches-field:"+r.name, "flag-reaches-field", fmt.Sprintf("flag --%s is registered with %s but field %s has type %s", r.name, r.method, l.field, l.typ))
		default:
			add("flag-reaches-field:"+r.name, "flag-reaches-field", "")
			// the default shown for the flag is the default of the option it sets
			root, path := defaultPathOf(r.def)
			want := l.field
			msg := ""
			switch {
			case root == "":
				msg = fmt.Sprintf("the default of flag --%s is not read from the default configuration (%s)", r.name, r.def)
			case path != want && path != want+".Duration":
				msg = fmt.Sprintf("the default of flag --%s is read from %s.%s, but the flag sets %s", r.name, root, path, want)
			}
			add("flag-default-is-option-default:"+r.name, "flag-default-is-option-default", msg)
		}
	}
	res.Notes[fmt.Sprintf("flagmap %s: %d options, %d flags, fields outside the decoder: %v", fm.Type, len(leaves), len(regs), skipped)]++
	return res
}

// defaultPathOf recognises a value read from the default configuration: a chain of field
// selections rooted at the package variable DefaultConfig (or a local copy of it), or at the
// result of a Default<Section>Config() constructor (path prefixed by the section name).
func defaultPathOf(v ssa.Value) (root, path string) {
	var names []string
	for {
		switch x := v.(type) {
		case *ssa.UnOp:
			if x.Op != token.MUL {
				return "", ""
			}
			v = x.X
			continue
		case *ssa.FieldAddr:
			st := x.X.Type().Underlying().(*types.Pointer).Elem().Underlying().(*types.Struct)
			names = append([]string{st.Field(x.Field).Name()}, names...)
			v = x.X
			continue
		case *ssa.Field:
			st := x.X.Type().Underlying().(*types.Struct)
			names = append([]string{st.Field(x.Field).Name()}, names...)
			v = x.X
			continue
		case *ssa.Global:
			if x.Name() == "DefaultConfig" {
				return "DefaultConfig", strings.Join(names, ".")
			}
			return "", ""
		case *ssa.Alloc:
			// a local copy: exactly one store, of the value of DefaultConfig or of a constructor result
			var src ssa.Value
			n := 0
			for _, ref := range *x.Referrers() {
				if st, ok := ref.(*ssa.Store); ok && st.Addr == x {
					src = st.Val
					n++
				}
			}
			if n != 1 {
				return "", ""
			}
			v = src
			continue
		case *ssa.Call:
			callee := x.Call.StaticCallee()
			if callee == nil || len(x.Call.Args) != 0 {
				return "", ""
			}
			nm := callee.Name()
			if strings.HasPrefix(nm, "Default") && strings.HasSuffix(nm, "Config") && len(nm) > len("DefaultConfig") {
				sec := strings.TrimSuffix(strings.TrimPrefix(nm, "Default"), "Config")
				return nm + "()", strings.Join(append([]string{sec}, names...), ".")
			}
			return "", ""
		}
		return "", ""
	}
}

type findingEntry struct {
	ID       string   `json:"id"`
	Property []string `json:"property"`
	Status   string   `json:"status"`
	Module   string   `json:"module"`
	Pkg      string   `json:"pkg"`
	Harness  string   `json:"harness"`
	File     string   `json:"file"`
	Test     string   `json:"test"`
}

func loadFindingIndex() []findingEntry {
	var out []findingEntry
	b, err := os.ReadFile(filepath.Join(verifRoot(), "findings", "index.json"))
	if err == nil {
		_ = json.Unmarshal(b, &out)
	}
	return out
}

// runFindingReplay injects the replay test of a finding into the real package (go test -overlay).
func runFindingReplay(fe findingEntry) (string, bool) {
	cmd := exec.Command(filepath.Join(verifRoot(), "run_finding.sh"), fe.Module, fe.Pkg, fe.Harness, filepath.Join(verifRoot(), fe.File), fe.Test)
	out, err := cmd.CombinedOutput()
	return string(out), err == nil && strings.Contains(string(out), "ok ")
}

func tailLines(s string, n int) string {
	ls := strings.Split(strings.TrimRight(s, "\n"), "\n")
	if len(ls) > n {
		ls = ls[len(ls)-n:]
	}
	return strings.Join(ls, "\n")
}

// checkNoGlobals: SSA scan of the named functions and of everything they call inside the same
// package; any reference to a package-level variable (other than the allowed ones) fails.
func (e *Engine) checkNoGlobals(ng *NoGlobalsCheck) *FuncResult {
	key := ng.Pkg + "." + strings.Join(ng.Funcs, ",") + "$noglobals"
	res := &FuncResult{Key: key, Unmodelled: map[string]int{}, Assumed: map[string]int{}, Notes: map[string]int{}, Inlined: map[string]int{}}
	allow := map[string]bool{}
	for _, a := range ng.Allow {
		allow[a] = true
	}
	for _, fname := range ng.Funcs {
		o := &Obligation{Func: key, Name: "ground[no package state: " + fname + "]", Kind: "ground", Label: "no-package-state", Where: ng.Where, Goal: tTrue}
		res.Obls = append(res.Obls, o)
		root := e.fnByKey[ng.Pkg+"."+fname]
		msg := ""
		if root == nil || root.Blocks == nil {
			msg = "function " + fname + " not found"
		} else {
			seen := map[*ssa.Function]bool{}
			var bad []string
			var walk func(fn *ssa.Function)
			walk = func(fn *ssa.Function) {
				if fn == nil || seen[fn] || fn.Blocks == nil {
					return
				}
				seen[fn] = true
				for _, b := range fn.Blocks {
					for _, ins := range b.Instrs {
						for _, op := range ins.Operands(nil) {
							if op == nil || *op == nil {
								continue
							}
							switch v := (*op).(type) {
							case *ssa.Global:
								if v.Pkg != nil && v.Pkg.Pkg.Path() == ng.Pkg && !allow[v.Name()] && !strings.HasPrefix(v.Name(), "init$") {
									bad = append(bad, fmt.Sprintf("%s uses the package variable %s (%s)", fn.Name(), v.Name(), e.prog.Fset.Position(ins.Pos())))
								}
							case *ssa.Function:
								if v.Pkg != nil && v.Pkg.Pkg.Path() == ng.Pkg {
									walk(v)
								}
							case *ssa.MakeClosure:
								walk(v.Fn.(*ssa.Function))
							}
						}
					}
				}
				for _, anon := range fn.AnonFuncs {
					walk(anon)
				}
			}
			walk(root)
			sort.Strings(bad)
			if len(bad) > 0 {
				if len(bad) > 5 {
					bad = bad[:5]
				}
				msg = strings.Join(bad, "; ")
			}
		}
		if msg == "" {
			o.Res = &SolveResult{Status: "unsat", Backend: "go/ssa scan"}
		} else {
			o.Res = &SolveResult{Status: "sat", Backend: "go/ssa scan", Output: msg}
			o.Query = "; " + msg
		}
	}
	return res
}

// canonSite: an obligation site inside a helper that is explored inline is named with the chain of
// calls that leads to it (`@after helper#1/SaveBlockData#1`). For matching against the recorded
// findings only the site itself counts (`@after SaveBlockData#1`): moving code into a helper does
// not make a recorded defect a new one.
func canonSite(name string) string {
	at := strings.Index(name, "@")
	if at < 0 {
		return name
	}
	site := name[at+1:]
	pre := ""
	if strings.HasPrefix(site, "after ") {
		pre, site = "after ", site[len("after "):]
	}
	if i := strings.LastIndex(site, "/"); i >= 0 {
		site = site[i+1:]
	}
	return name[:at+1] + pre + site
}
