package main

// `gocv check`: decide one property on the current working tree of /repo.

import (
	"go/token"
	"go/types"

	"crypto/sha256"
	"encoding/hex"
	"encoding/json"
	"flag"
	"fmt"
	"golang.org/x/tools/go/ssa"
	"os"
	"path/filepath"
	"sort"
	"strconv"
	"strings"
	"time"
)

type PropModule struct {
	Dir  string   `json:"dir"`  // relative to the repository root
	Pkgs []string `json:"pkgs"` // package patterns
}

type PropConfig struct {
	ID          string       `json:"id"`
	Modules     []PropModule `json:"modules"`
	Assumptions []string     `json:"assumptions"`
	Bounded     []string     `json:"bounded"`
	Note        string       `json:"note"`
}

type Finding struct {
	Property   string `json:"property"`
	Func       string `json:"func"`
	Obligation string `json:"obligation"`
	What       string `json:"what"`
	Replay     string `json:"replay,omitempty"`
}

type FindingsFile struct {
	Open  []Finding `json:"open"`
	Fixed []string  `json:"fixed"`
}

func loadProps() (map[string]*PropConfig, error) {
	b, err := os.ReadFile(filepath.Join(verifRoot(), "props.json"))
	if err != nil {
		return nil, err
	}
	var list []*PropConfig
	if err := json.Unmarshal(b, &list); err != nil {
		return nil, err
	}
	m := map[string]*PropConfig{}
	for _, p := range list {
		m[p.ID] = p
	}
	return m, nil
}

func loadFindings() *FindingsFile {
	ff := &FindingsFile{}
	b, err := os.ReadFile(filepath.Join(verifRoot(), "known_findings.json"))
	if err == nil {
		_ = json.Unmarshal(b, ff)
	}
	return ff
}

// propLabels: does contract c serve property id, and with which labels (nil = all)?
func propLabels(c *Contract, id string) (bool, map[string]bool) {
	for _, p := range c.Props {
		if p == id {
			return true, nil
		}
		if strings.HasPrefix(p, id+":") {
			ls := map[string]bool{}
			for _, l := range strings.Split(p[len(id)+1:], ",") {
				ls[strings.TrimSpace(l)] = true
			}
			return true, ls
		}
	}
	return false, nil
}

// labelServes: a filter lists the labels (or kind:<kind>) that serve the property, or - when every
// entry starts with '-' - the labels that do not.
func labelServes(ls map[string]bool, label, kind string) bool {
	if ls == nil {
		return true
	}
	if ls["-"+label] || ls["-kind:"+kind] {
		return false
	}
	incl := false
	for l := range ls {
		if !strings.HasPrefix(l, "-") {
			incl = true
		}
	}
	return !incl || ls[label] || ls["kind:"+kind]
}

type checkRun struct {
	id       string
	tier     string
	timeout  int
	results  []*FuncResult
	groups   []*OblGroup
	labels   map[string]map[string]bool // func key -> label filter
	engErrs  []string
	files    []string
	ssaHash  map[string]string
	contract map[string]*Contract
}

func sanitize(s string) string {
	return strings.Map(func(r rune) rune {
		switch {
		case r >= 'a' && r <= 'z', r >= 'A' && r <= 'Z', r >= '0' && r <= '9', r == '-', r == '_', r == '.':
			return r
		}
		return '_'
	}, s)
}

func shortFunc(k string) string {
	if i := strings.LastIndex(k, "/"); i >= 0 {
		return k[i+1:]
	}
	return k
}

func runProperty(id, tier string, timeout int, overlay map[string][]byte, only string) (*checkRun, error) {
	props, err := loadProps()
	if err != nil {
		return nil, err
	}
	pc := props[id]
	if pc == nil {
		return nil, fmt.Errorf("property %s is not configured in props.json", id)
	}
	run := &checkRun{id: id, tier: tier, timeout: timeout, labels: map[string]map[string]bool{}, ssaHash: map[string]string{}, contract: map[string]*Contract{}}
	tmp, err := os.MkdirTemp("/var/tmp", "gocv")
	if err != nil {
		return nil, err
	}
	defer os.RemoveAll(tmp)
	solver := NewSolver(tmp, timeout)
	for _, pm := range pc.Modules {
		e := NewEngine()
		dir := filepath.Join(repoRoot(), pm.Dir)
		if err := e.Load(dir, overlay, pm.Pkgs...); err != nil {
			return nil, fmt.Errorf("load %s: %v", dir, err)
		}
		if err := loadSpecs(e, e.moduleDir); err != nil {
			return nil, fmt.Errorf("contracts: %v", err)
		}
		run.files = append(run.files, e.db.Files...)
		for _, dc := range e.db.Distinct {
			serves := false
			for _, p := range dc.Props {
				if p == id {
					serves = true
				}
			}
			if serves && only == "" {
				run.results = append(run.results, e.checkDistinct(dc))
			}
		}
		for _, rc := range e.db.RecvOnly {
			serves := false
			for _, p := range rc.Props {
				if p == id {
					serves = true
				}
			}
			if serves && (only == "" || strings.Contains(rc.Chan, only)) {
				run.results = append(run.results, e.checkRecvOnly(rc))
			}
		}
		for _, mc := range e.db.MethodSets {
			serves := false
			for _, p := range mc.Props {
				if p == id {
					serves = true
				}
			}
			if !serves || (only != "" && !strings.Contains(mc.Name, only)) {
				continue
			}
			run.results = append(run.results, e.checkMethodSet(mc))
		}
		for _, k := range e.db.SortedKeys() {
			con := e.db.Contracts[k]
			ok, labels := propLabels(con, id)
			if !ok || con.Trusted {
				continue
			}
			if only != "" && !strings.Contains(k, only) {
				continue
			}
			fn := e.fnByKey[k]
			if fn == nil || fn.Blocks == nil {
				run.engErrs = append(run.engErrs, fmt.Sprintf("contract %s (%s:%d) does not bind to a function with a body", k, filepath.Base(con.File), con.Line))
				continue
			}
			run.labels[k] = labels
			run.contract[k] = con
			r := e.VerifyFunc(fn, con)
			if labels != nil {
				// only the clauses that serve this property are discharged
				kept := r.Obls[:0]
				for _, o := range r.Obls {
					if o.Kind == "cover" || labelServes(labels, o.Label, o.Kind) {
						kept = append(kept, o)
					}
				}
				r.Obls = kept
			}
			h := sha256.New()
			fn.WriteTo(h)
			run.ssaHash[k] = hex.EncodeToString(h.Sum(nil))[:16]
			if r.EngineErr != "" {
				run.engErrs = append(run.engErrs, k+": "+r.EngineErr)
			}
			run.results = append(run.results, r)
		}
	}
	Discharge(solver, run.results, nil)
	for _, g := range GroupObligations(run.results) {
		if ls := run.labels[g.Func]; ls != nil && g.Kind != "cover" && !labelServes(ls, g.Label, g.Kind) {
			continue
		}
		run.groups = append(run.groups, g)
	}
	return run, nil
}

func cmdCheck(args []string) {
	fs := flag.NewFlagSet("check", flag.ExitOnError)
	id := fs.String("property", "", "property id")
	tier := fs.String("tier", "", "quick | thorough")
	only := fs.String("func", "", "development: only functions whose key contains this")
	verbose := fs.Bool("v", false, "list every obligation")
	fs.Parse(args)
	if *tier == "" {
		*tier = os.Getenv("VERIF_TIER")
	}
	if *tier == "" {
		*tier = "quick"
	}
	seed, _ := strconv.Atoi(os.Getenv("VERIF_SEED"))
	timeout := 6
	if *tier == "thorough" {
		timeout = 60
	}
	t0 := time.Now()
	run, err := runProperty(*id, *tier, timeout, nil, *only)
	if err != nil {
		fmt.Fprintln(os.Stderr, "ENGINE-ERROR:", err)
		os.Exit(2)
	}
	ff := loadFindings()
	known := map[string]Finding{}
	for _, f := range ff.Open {
		if f.Property == *id {
			known[f.Func+"#"+f.Obligation] = f
		}
	}
	root := verifRoot()
	replayDir := filepath.Join(root, "evidence", "replays", *id)
	os.RemoveAll(replayDir)
	violations := 0
	obligations, discharged := 0, 0
	var excluded []string
	var samples []any
	backends := map[string]int{}
	solverS := 0.0
	covers := 0
	for _, g := range run.groups {
		for b, n := range g.Backend {
			backends[b] += n
		}
		solverS += g.Seconds
		if g.Kind == "cover" {
			covers++
			if !g.OK {
				run.engErrs = append(run.engErrs, fmt.Sprintf("vacuity: %s # %s is unreachable under the assumed clauses", g.Func, g.Name))
			}
			continue
		}
		key := g.Func + "#" + g.Name
		if *verbose {
			st := "ok"
			if !g.OK {
				st = "FAILED"
			}
			fmt.Printf("%-6s %s # %s (%d paths, %.2fs)\n", st, shortFunc(g.Func), g.Name, g.Paths, g.Seconds)
		}
		if f, isKnown := known[key]; isKnown {
			if g.OK {
				fmt.Printf("NOTE: known finding no longer reproduces (obligation now discharges): %s\n", key)
				obligations++
				discharged++
			} else {
				fmt.Printf("KNOWN-FINDING: property=%s %s [%s # %s]\n", *id, f.What, shortFunc(g.Func), g.Name)
				excluded = append(excluded, key)
			}
			delete(known, key)
			continue
		}
		obligations++
		if g.OK {
			discharged++
			continue
		}
		violations++
		os.MkdirAll(replayDir, 0o755)
		path := filepath.Join(replayDir, sanitize(shortFunc(g.Func)+"__"+g.Name)+".txt")
		tail := writeReplay(path, *id, g, run)
		fmt.Printf("VIOLATION property=%s replay=%s obligation=%s#%s %s\n", *id, path, shortFunc(g.Func), strings.ReplaceAll(g.Name, " ", "_"), tail)
	}
	for key, f := range known {
		// a listed finding whose obligation was not generated at all: the contract or code moved
		fmt.Printf("NOTE: known finding not matched by any obligation of this run: %s (%s)\n", key, f.What)
	}
	// samples: a few obligations with their full query text
	ns := 0
	for _, r := range run.results {
		for _, o := range r.Obls {
			if o.Query != "" && !o.Cover && ns < 3 && (len(r.Obls) < 4 || (ns+seed)%2 == 0 || ns == 0) {
				q := o.Query
				if len(q) > 6000 {
					q = q[:6000] + "\n; ... truncated"
				}
				samples = append(samples, map[string]any{"function": r.Key, "obligation": o.Name, "clause_at": o.Where, "path": o.Trail, "status": o.Res.Status, "backend": o.Res.Backend, "seconds": o.Res.Seconds, "smtlib": q})
				ns++
			}
		}
	}
	var funcs []any
	unmodelled := map[string]int{}
	assumed := map[string]int{}
	notes := map[string]int{}
	inlined := map[string]int{}
	paths := 0
	for _, r := range run.results {
		funcs = append(funcs, map[string]any{"function": r.Key, "ssa_sha256_16": run.ssaHash[r.Key], "paths": r.Paths, "path_obligations": len(r.Obls), "symex_seconds": r.Seconds})
		paths += r.Paths
		for k, v := range r.Unmodelled {
			unmodelled[k] += v
		}
		for k, v := range r.Assumed {
			assumed[k] += v
		}
		for k, v := range r.Notes {
			notes[k] += v
		}
		for k, v := range r.Inlined {
			inlined[k] += v
		}
	}
	props, _ := loadProps()
	pc := props[*id]
	assumptions := append([]string{}, pc.Assumptions...)
	assumptions = append(assumptions,
		"arithmetic: Go integers are SMT Int; unsigned + - * and conversions wrap modulo 2^n explicitly; signed overflow is assumed absent unless an obligation says otherwise",
		"memory: Burstall-Bornat heap per field; append allocates a fresh backing array (no aliasing through spare capacity); interior pointers stored as data lose identity",
		"concurrency: one sequential schedule per function; Lock/Unlock are no-ops; go statements are not executed",
		"implicit run-time checks (nil dereference, index, slice bounds, division) are assumed to pass except in functions whose contract says nopanic",
		"the VC generator itself (gocv), go/ssa naive form, and the SMT solvers are trusted",
	)
	var trusted []string
	for _, k := range sortedKeys(assumed) {
		trusted = append(trusted, fmt.Sprintf("%s (used %d times)", k, assumed[k]))
	}
	for _, k := range sortedKeys(unmodelled) {
		trusted = append(trusted, fmt.Sprintf("unmodelled call, result unconstrained and assumed not to touch modelled state: %s (x%d)", k, unmodelled[k]))
	}
	if trusted == nil {
		trusted = []string{}
	}
	var noteList []string
	for _, k := range sortedKeys(notes) {
		noteList = append(noteList, fmt.Sprintf("%s (x%d)", k, notes[k]))
	}
	var inl []string
	for _, k := range sortedKeys(inlined) {
		inl = append(inl, fmt.Sprintf("%s (x%d)", k, inlined[k]))
	}
	sort.Strings(excluded)
	ev := map[string]any{
		"property_id": *id,
		"tier":        *tier,
		"seed":        seed,
		"level":       "proof",
		"coverage": map[string]any{
			"obligations":              obligations,
			"discharged":               discharged,
			"checker_cmd":              fmt.Sprintf("bin/gocv check -property %s -tier %s (per-path SMT-LIB queries generated from go/ssa of /repo's working tree; z3 5.1.0, cvc5 1.0.x, z3 4.8.12 raced, %ds cap)", *id, *tier, timeout),
			"trusted_base":             trusted,
			"samples":                  samples,
			"functions_under_contract": funcs,
			"paths_explored":           paths,
			"path_queries":             countQueries(run),
			"reachability_covers":      covers,
			"backend_answers":          backends,
			"solver_seconds":           solverS,
			"inlined_callees":          inl,
			"engine_notes":             noteList,
			"excluded_known_findings":  excluded,
			"bounded_stand_ins":        pc.Bounded,
			"contract_files":           run.files,
			"explanation":              "obligations = named proof obligations (one per clause and site, each checked on every path that reaches it) generated from the current source; discharged = those for which every path query is unsat. Obligations listed under excluded_known_findings fail for a recorded genuine defect and are not counted.",
		},
		"assumptions": assumptions,
		"wall_s":      time.Since(t0).Seconds(),
		"violations":  violations,
	}
	if len(run.engErrs) > 0 {
		for _, e := range run.engErrs {
			fmt.Fprintln(os.Stderr, "ENGINE-ERROR:", e)
		}
		if violations == 0 {
			os.Exit(2)
		}
		// with failed obligations the engine errors (typically unreachable code after a failed
		// invariant) are consequences: the run is reported as a violation
	}
	if obligations == 0 {
		fmt.Fprintln(os.Stderr, "ENGINE-ERROR: no obligations generated for", *id)
		os.Exit(2)
	}
	os.MkdirAll(filepath.Join(root, "evidence"), 0o755)
	b, _ := json.MarshalIndent(ev, "", " ")
	if err := os.WriteFile(filepath.Join(root, "evidence", *id+".json"), b, 0o644); err != nil {
		fmt.Fprintln(os.Stderr, "ENGINE-ERROR:", err)
		os.Exit(2)
	}
	fmt.Printf("%s %s: %d obligations, %d discharged, %d known findings, %d violations, %d functions, %d paths, %.1fs\n",
		*id, *tier, obligations, discharged, len(excluded), violations, len(run.results), paths, time.Since(t0).Seconds())
	if violations > 0 {
		os.Exit(1)
	}
}

func countQueries(run *checkRun) int {
	n := 0
	for _, r := range run.results {
		n += len(r.Obls)
	}
	return n
}

// writeReplay writes the replay file for a failed obligation and returns the VIOLATION suffix.
func writeReplay(path, id string, g *OblGroup, run *checkRun) string {
	var b strings.Builder
	fmt.Fprintf(&b, "property: %s\nfunction: %s\nobligation: %s\nclause at: %s\nfailing paths: %d of %d\n", id, g.Func, g.Name, g.Where, len(g.Failed), g.Paths)
	if c := run.contract[g.Func]; c != nil {
		for _, cl := range append(append(append([]*Clause{}, c.Ensures...), c.Requires...), c.CrashInv...) {
			if cl.Label == g.Label {
				fmt.Fprintf(&b, "clause [%s]: %s\n", cl.Label, cl.Text)
			}
		}
		for _, cls := range c.LoopInv {
			for _, cl := range cls {
				if cl.Label == g.Label {
					fmt.Fprintf(&b, "loop invariant [%s]: %s\n", cl.Label, cl.Text)
				}
			}
		}
	}
	model := false
	for i, o := range g.Failed {
		if i >= 3 {
			break
		}
		fmt.Fprintf(&b, "\n--- failing path %d: %s\n", i+1, o.Trail)
		if o.Res != nil {
			fmt.Fprintf(&b, "solver: %s answered %s in %.2fs\n", o.Res.Backend, o.Res.Status, o.Res.Seconds)
			out := o.Res.Output
			if len(out) > 8000 {
				out = out[:8000] + "\n... truncated"
			}
			fmt.Fprintf(&b, "solver output (model of the function's inputs where sat):\n%s\n", out)
			if strings.HasPrefix(o.Res.Status, "sat") {
				model = true
			}
		}
		if i == 0 {
			q := o.Query
			if len(q) > 20000 {
				q = q[:20000] + "\n; ... truncated"
			}
			fmt.Fprintf(&b, "query:\n%s\n", q)
		}
	}
	tail := "no-failing-input-found"
	if model {
		if ok, text := tryReplay(id, g, run); text != "" {
			fmt.Fprintf(&b, "\n--- replay on the real code\n%s\n", text)
			if ok {
				tail = "replayed-on-real-code"
			}
		}
	}
	fmt.Fprintf(&b, "\nresult: %s\n", tail)
	os.WriteFile(path, []byte(b.String()), 0o644)
	if tail == "replayed-on-real-code" {
		return ""
	}
	return tail
}

func cmdReplay(args []string) {
	if len(args) < 1 {
		usage()
	}
	b, err := os.ReadFile(args[0])
	if err != nil {
		fmt.Fprintln(os.Stderr, err)
		os.Exit(2)
	}
	os.Stdout.Write(b)
}

// checkMethodSet resolves a method through the method set of *T the way an interface call
// does, and requires it to be declared on the expected type (a ground obligation decided by
// go/types, not by SMT).
func (e *Engine) checkMethodSet(mc *MethodSetCheck) *FuncResult {
	key := mc.Pkg + "." + mc.Recv + "." + mc.Name + "$methodset"
	res := &FuncResult{Key: key, Unmodelled: map[string]int{}, Assumed: map[string]int{}, Notes: map[string]int{}, Inlined: map[string]int{}}
	o := &Obligation{Func: key, Name: "ground[declared-on " + mc.DeclaredOn + "]", Kind: "ground", Label: "declared-on", Where: mc.Where, Goal: tTrue}
	res.Obls = []*Obligation{o}
	p := e.allPkgs[mc.Pkg]
	msg := ""
	if p == nil || p.Types == nil {
		msg = "package not loaded"
	} else if obj := p.Types.Scope().Lookup(mc.Recv); obj == nil {
		msg = "type " + mc.Recv + " not found"
	} else {
		ms := types.NewMethodSet(types.NewPointer(obj.Type()))
		sel := ms.Lookup(p.Types, mc.Name)
		if sel == nil {
			msg = "method " + mc.Name + " is not in the method set of *" + mc.Recv
		} else {
			fn := sel.Obj().(*types.Func)
			recv := fn.Type().(*types.Signature).Recv()
			n := namedOf(recv.Type())
			if n == nil || n.Obj().Name() != mc.DeclaredOn || len(sel.Index()) != 1 {
				got := "?"
				if n != nil {
					got = n.Obj().Name()
				}
				msg = fmt.Sprintf("(*%s).%s resolves to the method promoted from %s, not to one declared on %s", mc.Recv, mc.Name, got, mc.DeclaredOn)
			}
		}
	}
	if msg == "" {
		o.Res = &SolveResult{Status: "unsat", Backend: "go/types"}
	} else {
		o.Res = &SolveResult{Status: "sat", Backend: "go/types", Output: msg}
		o.Query = "; " + msg
	}
	return res
}

// checkRecvOnly scans every function of the package for receives from the named channel
// field (plain receives, select cases, range) and requires them to be in the listed functions.
func (e *Engine) checkRecvOnly(rc *RecvOnlyCheck) *FuncResult {
	key := rc.Pkg + "." + rc.Chan + "$recvonly"
	res := &FuncResult{Key: key, Unmodelled: map[string]int{}, Assumed: map[string]int{}, Notes: map[string]int{}, Inlined: map[string]int{}}
	o := &Obligation{Func: key, Name: "ground[receivers of " + rc.Chan + "]", Kind: "ground", Label: "receivers", Where: rc.Where, Goal: tTrue}
	res.Obls = []*Obligation{o}
	allowed := map[string]bool{}
	for _, f := range rc.Funcs {
		allowed[f] = true
	}
	x := &Explorer{eng: e}
	var bad []string
	for k, fn := range e.fnByKey {
		if !strings.HasPrefix(k, rc.Pkg+".") || fn.Blocks == nil {
			continue
		}
		name := fn.Name()
		for p := fn.Parent(); p != nil; p = p.Parent() {
			name = p.Name()
		}
		fr := &Frame{fn: fn}
		for _, b := range fn.Blocks {
			for _, ins := range b.Instrs {
				var chans []ssa.Value
				switch i := ins.(type) {
				case *ssa.UnOp:
					if i.Op == token.ARROW {
						chans = append(chans, i.X)
					}
				case *ssa.Select:
					for _, s := range i.States {
						if s.Dir == types.RecvOnly {
							chans = append(chans, s.Chan)
						}
					}
				case *ssa.Range:
					if _, ok := i.X.Type().Underlying().(*types.Chan); ok {
						chans = append(chans, i.X)
					}
				}
				for _, c := range chans {
					if x.chanExprName(fr, c) == rc.Chan && !allowed[name] {
						bad = append(bad, name+" ("+e.posStr(ins.Pos())+")")
					}
				}
			}
		}
	}
	if len(bad) == 0 {
		o.Res = &SolveResult{Status: "unsat", Backend: "go/ssa scan"}
	} else {
		sort.Strings(bad)
		msg := "receives from " + rc.Chan + " outside " + strings.Join(rc.Funcs, ", ") + ": " + strings.Join(bad, "; ")
		o.Res = &SolveResult{Status: "sat", Backend: "go/ssa scan", Output: msg}
		o.Query = "; " + msg
	}
	return res
}

// checkDistinct: pairwise distinct constant values (ground obligation decided by go/constant).
func (e *Engine) checkDistinct(dc *DistinctCheck) *FuncResult {
	key := dc.Pkg + "." + strings.Join(dc.Names, ",") + "$distinct"
	res := &FuncResult{Key: key, Unmodelled: map[string]int{}, Assumed: map[string]int{}, Notes: map[string]int{}, Inlined: map[string]int{}}
	o := &Obligation{Func: key, Name: "ground[pairwise distinct]", Kind: "ground", Label: "distinct", Where: dc.Where, Goal: tTrue}
	res.Obls = []*Obligation{o}
	msg := ""
	p := e.allPkgs[dc.Pkg]
	seen := map[string]string{}
	if p == nil || p.Types == nil {
		msg = "package not loaded"
	} else {
		for _, n := range dc.Names {
			obj, ok := p.Types.Scope().Lookup(n).(*types.Const)
			if !ok {
				msg = "constant " + n + " not found"
				break
			}
			v := obj.Val().ExactString()
			if other, dup := seen[v]; dup {
				msg = fmt.Sprintf("constants %s and %s have the same value %s", other, n, v)
				break
			}
			seen[v] = n
		}
	}
	if msg == "" {
		o.Res = &SolveResult{Status: "unsat", Backend: "go/constant"}
	} else {
		o.Res = &SolveResult{Status: "sat", Backend: "go/constant", Output: msg}
		o.Query = "; " + msg
	}
	return res
}
