package main

// Built-in models: Go builtins, and library functions whose meaning the engine knows.

import (
	"fmt"
	"go/types"
	"strings"

	"golang.org/x/tools/go/ssa"
)

func (x *Explorer) builtin(st *State, f *Frame, ins ssa.Instruction, b *ssa.Builtin, c *ssa.CallCommon, args []Val) Val {
	switch b.Name() {
	case "len":
		return VInt{T: x.lenOf(st, args[0])}
	case "cap":
		switch a := args[0].(type) {
		case VSlice:
			return VInt{T: a.Cap}
		case VArray:
			return VInt{T: IntLit(a.T.Len())}
		}
		r := st.freshInt("cap")
		st.addFact(Ge(r, IntLit(0)))
		return VInt{T: r}
	case "append":
		if sl, ok := c.Args[0].(*ssa.Slice); ok && sl.High != nil {
			// append(s[:k], t...): the operand was cut short, so the result usually fits the
			// capacity and Go writes it over the old contents, in place. Both outcomes are explored.
			// (For an operand that was not re-sliced only the reallocating outcome is: see DESIGN.)
			s, ok1 := args[0].(VSlice)
			t, ok2 := args[1].(VSlice)
			// (at most twice per path: every such append doubles the paths, and a function that reuses
			// many buffers shows the effect on the first ones)
			if v, isVal := ins.(ssa.Value); ok1 && ok2 && isVal && !st.dead && st.inPlaceForks < 2 {
				st.inPlaceForks++
				if _, isDefer := ins.(*ssa.Defer); !isDefer {
					nl := Add(s.Len, t.Len)
					alt := x.fork(st)
					alt.assume(Le(nl, s.Cap))
					res := x.appendInPlace(alt, s, t)
					af := alt.top()
					af.env[v] = res
					af.pc++
					alt.trail = append(alt.trail[:len(alt.trail):len(alt.trail)], "append-in-place")
					st.assume(Gt(nl, s.Cap))
				}
			}
		}
		return x.doAppend(st, args[0], args[1])
	case "copy":
		return x.doCopy(st, args[0], args[1])
	case "min", "max":
		if bt, ok := c.Args[0].Type().Underlying().(*types.Basic); ok && bt.Info()&types.IsFloat != 0 {
			r := asInt(args[0])
			for _, a := range args[1:] {
				r = UF("f"+b.Name(), SInt, r, asInt(a))
			}
			return VInt{T: r}
		}
		r := asInt(args[0])
		for _, a := range args[1:] {
			t := asInt(a)
			if b.Name() == "min" {
				r = Ite(Le(r, t), r, t)
			} else {
				r = Ite(Ge(r, t), r, t)
			}
		}
		return VInt{T: r}
	case "delete":
		m := args[0].(VMap)
		prefix, _ := x.mapHeaps(st, m)
		k := x.mapKey(st, m, args[1])
		hasArr := st.heapGet(prefix+"#has", ArrSort(ArrSort(SBool)))
		row := Select(hasArr, m.Ref)
		was := Select(row, k)
		st.heapSet(prefix+"#has", Store(hasArr, m.Ref, Store(row, k, tFalse)))
		cnt := st.heapGet(prefix+"#len", ArrSort(SInt))
		st.heapSet(prefix+"#len", Store(cnt, m.Ref, Sub(Select(cnt, m.Ref), Ite(was, IntLit(1), IntLit(0)))))
		return nil
	case "close":
		x.ghostCount(st, "close:"+x.chanExprName(f, c.Args[0]))
		return nil
	case "print", "println":
		return nil
	case "recover":
		return VIface{Tag: IntLit(0), Val: IntLit(0)}
	case "ssa:wrapnilchk":
		return args[0]
	case "ssa:deferstack":
		return VInt{T: IntLit(0)}
	case "clear":
		switch a := args[0].(type) {
		case VSlice:
			// every element of the slice becomes the zero value; the rest of the backing array stays
			names, sorts := x.elemHeaps(st, a.Elem)
			for i, name := range names {
				arr := st.heapGet(name, ArrSort(ArrSort(sorts[i])))
				row := Select(arr, a.Arr)
				nrow := st.freshSym("clear_row", ArrSort(sorts[i]))
				k := Sym(fmt.Sprintf("ck!%d", x.fresh), SInt)
				x.fresh++
				in := And(Ge(k, a.Off), Lt(k, Add(a.Off, a.Len)))
				if sorts[i] == SInt {
					st.assume(Forall([]*Term{k}, Implies(in, Eq(Select(nrow, k), IntLit(0)))))
				} else if sorts[i] == SBool {
					st.assume(Forall([]*Term{k}, Implies(in, Not(Select(nrow, k)))))
				} else {
					st.note("builtin clear: elements of sort " + sorts[i] + " left unconstrained")
				}
				st.assume(Forall([]*Term{k}, Implies(Not(in), Eq(Select(nrow, k), Select(row, k)))))
				st.heapSet(name, Store(arr, a.Arr, nrow))
			}
		case VMap:
			prefix, _ := x.mapHeaps(st, a)
			hasArr := st.heapGet(prefix+"#has", ArrSort(ArrSort(SBool)))
			st.heapSet(prefix+"#has", Store(hasArr, a.Ref, ConstArr(ArrSort(SBool), tFalse)))
			cnt := st.heapGet(prefix+"#len", ArrSort(SInt))
			st.heapSet(prefix+"#len", Store(cnt, a.Ref, IntLit(0)))
		default:
			x.fail("builtin clear on %T", args[0])
		}
		return nil
	}
	x.fail("builtin %s", b.Name())
	return nil
}

func (x *Explorer) lenOf(st *State, v Val) *Term {
	switch a := v.(type) {
	case VSlice:
		return a.Len
	case VArray:
		return IntLit(a.T.Len())
	case VMap:
		prefix, _ := x.mapHeaps(st, a)
		n := Select(st.heapGet(prefix+"#len", ArrSort(SInt)), a.Ref)
		st.addFact(Ge(n, IntLit(0)))
		return n
	case VInt: // string or channel
		n := UF("strlen", SInt, a.T)
		st.addFact(Ge(n, IntLit(0)))
		return n
	case VPtr: // pointer to array
		if at, ok := st.eng.pointee(a).Underlying().(*types.Array); ok {
			return IntLit(at.Len())
		}
	}
	r := st.freshInt("len")
	st.addFact(Ge(r, IntLit(0)))
	return r
}

func (x *Explorer) elemHeaps(st *State, elem types.Type) (names []string, sorts []string) {
	prefix := "[]" + st.eng.typeKey(elem)
	for _, l := range st.eng.leaves(elem) {
		names = append(names, prefix+l.Path)
		sorts = append(sorts, l.Sort)
	}
	return
}

// doAppend models append as allocating a fresh backing array (assumption A-append).
func (x *Explorer) doAppend(st *State, s0, t0 Val) Val {
	s := s0.(VSlice)
	ref := st.newRef()
	names, sorts := x.elemHeaps(st, s.Elem)
	if tv, ok := t0.(VInt); ok { // append([]byte, string...)
		n := UF("strlen", SInt, tv.T)
		st.addFact(Ge(n, IntLit(0)))
		for i, name := range names {
			arr := st.heapGet(name, ArrSort(ArrSort(sorts[i])))
			st.heapSet(name, Store(arr, ref, st.freshSym("append_row", ArrSort(sorts[i]))))
		}
		st.note("append(bytes, string...) contents havocked")
		c := st.freshInt("append_cap")
		nl := Add(s.Len, n)
		st.addFact(Ge(c, nl))
		return VSlice{Arr: ref, Off: s.Off, Len: nl, Cap: c, Elem: s.Elem}
	}
	t := t0.(VSlice)
	nl := Add(s.Len, t.Len)
	c := st.freshInt("append_cap")
	st.addFact(Ge(c, nl))
	st.addFact(Lt(c, Pow2(62)))
	if t.Len.IsLit() && t.Len.Int.IsInt64() && t.Len.Int.Int64() <= 8 {
		k := int(t.Len.Int.Int64())
		for i, name := range names {
			arr := st.heapGet(name, ArrSort(ArrSort(sorts[i])))
			row := Select(arr, s.Arr)
			trow := Select(arr, t.Arr)
			old := row
			for j := 0; j < k; j++ {
				row = Store(row, Add(Add(s.Off, s.Len), IntLit(int64(j))), Select(trow, Add(t.Off, IntLit(int64(j)))))
			}
			st.heapSet(name, Store(arr, ref, row))
			if len(names) == 1 {
				x.bvalPrefixKept(st, s, old, row)
				x.bvalAppended(st, s, t, trow, row)
			}
			if strings.HasSuffix(name, "#len") && k == 1 {
				// running total of element lengths (sumLen): the old prefix keeps its sum, the new
				// element adds its length
				sum := func(r, n *Term) *Term { return UF("sumlen", SInt, r, s.Off, n) }
				st.addFact(Eq(sum(row, s.Len), sum(old, s.Len)))
				st.addFact(Eq(sum(row, Add(s.Len, IntLit(1))), Add(sum(old, s.Len), Select(trow, t.Off))))
				st.addFact(Eq(sum(old, IntLit(0)), IntLit(0)))
			}
		}
		return VSlice{Arr: ref, Off: s.Off, Len: nl, Cap: c, Elem: s.Elem}
	}
	// symbolic number of appended elements: quantified description of the new row
	var tval *Term
	if isByteSlice(types.NewSlice(s.Elem)) && s.Len.IsLit() && s.Len.Int.Sign() == 0 {
		tval = st.bval(t) // append(empty, t...) is a copy of t
	}
	defer func() {
		if tval != nil {
			st.assume(Eq(st.bval(VSlice{Arr: ref, Off: s.Off, Len: nl, Cap: c, Elem: s.Elem}), tval))
		}
	}()
	for i, name := range names {
		arr := st.heapGet(name, ArrSort(ArrSort(sorts[i])))
		row := Select(arr, s.Arr)
		trow := Select(arr, t.Arr)
		nrow := st.freshSym("append_row", ArrSort(sorts[i]))
		k := Sym(fmt.Sprintf("ak!%d", x.fresh), SInt)
		x.fresh++
		st.assume(Forall([]*Term{k}, Implies(And(Ge(k, IntLit(0)), Lt(k, s.Len)), Eq(Select(nrow, Add(s.Off, k)), Select(row, Add(s.Off, k))))))
		st.assume(Forall([]*Term{k}, Implies(And(Ge(k, IntLit(0)), Lt(k, t.Len)), Eq(Select(nrow, Add(Add(s.Off, s.Len), k)), Select(trow, Add(t.Off, k))))))
		st.heapSet(name, Store(arr, ref, nrow))
		if len(names) == 1 {
			x.bvalPrefixKept(st, s, row, nrow)
			x.bvalAppended(st, s, t, trow, nrow)
		}
	}
	return VSlice{Arr: ref, Off: s.Off, Len: nl, Cap: c, Elem: s.Elem}
}

// appendInPlace: append(s, t...) when the result fits s's capacity - the elements of t are written
// behind s in s's own array (memmove semantics: t is read before anything is written).
func (x *Explorer) appendInPlace(st *State, s, t VSlice) Val {
	names, sorts := x.elemHeaps(st, s.Elem)
	nl := Add(s.Len, t.Len)
	res := VSlice{Arr: s.Arr, Off: s.Off, Len: nl, Cap: s.Cap, Elem: s.Elem}
	var tval *Term
	if isByteSlice(types.NewSlice(s.Elem)) && s.Len.IsLit() && s.Len.Int.Sign() == 0 {
		tval = st.bval(t)
	}
	start := Add(s.Off, s.Len)
	for i, name := range names {
		arr := st.heapGet(name, ArrSort(ArrSort(sorts[i])))
		row := Select(arr, s.Arr)
		trow := Select(arr, t.Arr)
		nrow := st.freshSym("append_inplace_row", ArrSort(sorts[i]))
		k := Sym(fmt.Sprintf("ak!%d", x.fresh), SInt)
		x.fresh++
		st.assume(Forall([]*Term{k}, Implies(And(Ge(k, IntLit(0)), Lt(k, t.Len)), Eq(Select(nrow, Add(start, k)), Select(trow, Add(t.Off, k))))))
		st.assume(Forall([]*Term{k}, Implies(Or(Lt(k, start), Ge(k, Add(start, t.Len))), Eq(Select(nrow, k), Select(row, k)))))
		st.heapSet(name, Store(arr, s.Arr, nrow))
		if len(names) == 1 {
			x.bvalPrefixKept(st, s, row, nrow)
			x.bvalAppended(st, s, t, trow, nrow)
		}
	}
	if tval != nil {
		st.assume(Eq(st.bval(res), tval))
	}
	return res
}

// bvalPrefixKept: the bytes s held keep their value (as a byte string, in any window) in the row
// that append produced - the ground link between bval terms over the old and the new row.
func (x *Explorer) bvalPrefixKept(st *State, s VSlice, oldRow, newRow *Term) {
	if !isByteSlice(types.NewSlice(s.Elem)) {
		return
	}
	o := Sym(fmt.Sprintf("bo!%d", x.fresh), SInt)
	n := Sym(fmt.Sprintf("bn!%d", x.fresh), SInt)
	x.fresh++
	in := And(Ge(o, s.Off), Ge(n, IntLit(0)), Le(Add(o, n), Add(s.Off, s.Len)))
	st.assume(Forall([]*Term{o, n}, Implies(in, Eq(UF("bval", SInt, newRow, o, n), UF("bval", SInt, oldRow, o, n)))))
}

// bvalAppended: the part that append added is t, as a byte string.
func (x *Explorer) bvalAppended(st *State, s, t VSlice, tRow, newRow *Term) {
	if !isByteSlice(types.NewSlice(s.Elem)) {
		return
	}
	st.assume(Eq(UF("bval", SInt, newRow, Add(s.Off, s.Len), t.Len), UF("bval", SInt, tRow, t.Off, t.Len)))
}

func (x *Explorer) doCopy(st *State, d0, s0 Val) Val {
	d := d0.(VSlice)
	var n *Term
	names, sorts := x.elemHeaps(st, d.Elem)
	if sv, ok := s0.(VInt); ok { // copy([]byte, string)
		sl := UF("strlen", SInt, sv.T)
		n = Ite(Le(d.Len, sl), d.Len, sl)
		for i, name := range names {
			arr := st.heapGet(name, ArrSort(ArrSort(sorts[i])))
			st.heapSet(name, Store(arr, d.Arr, st.freshSym("copy_row", ArrSort(sorts[i]))))
		}
		st.note("copy(bytes, string) contents havocked")
		return VInt{T: n}
	}
	s := s0.(VSlice)
	n = Ite(Le(d.Len, s.Len), d.Len, s.Len)
	if n.IsLit() && n.Int.IsInt64() && n.Int.Int64() <= 8 {
		for i, name := range names {
			arr := st.heapGet(name, ArrSort(ArrSort(sorts[i])))
			srow := Select(arr, s.Arr)
			row := Select(arr, d.Arr)
			for j := int64(0); j < n.Int.Int64(); j++ {
				row = Store(row, Add(d.Off, IntLit(j)), Select(srow, Add(s.Off, IntLit(j))))
			}
			st.heapSet(name, Store(arr, d.Arr, row))
		}
		return VInt{T: n}
	}
	var sval *Term
	if isByteSlice(types.NewSlice(d.Elem)) {
		sval = st.bval(s)
	}
	for i, name := range names {
		arr := st.heapGet(name, ArrSort(ArrSort(sorts[i])))
		srow := Select(arr, s.Arr)
		row := Select(arr, d.Arr)
		nrow := st.freshSym("copy_row", ArrSort(sorts[i]))
		k := Sym(fmt.Sprintf("ck!%d", x.fresh), SInt)
		x.fresh++
		st.assume(Forall([]*Term{k}, Implies(And(Ge(k, IntLit(0)), Lt(k, n)), Eq(Select(nrow, Add(d.Off, k)), Select(srow, Add(s.Off, k))))))
		st.assume(Forall([]*Term{k}, Implies(Or(Lt(k, d.Off), Ge(k, Add(d.Off, n))), Eq(Select(nrow, k), Select(row, k)))))
		st.heapSet(name, Store(arr, d.Arr, nrow))
	}
	if sval != nil {
		// whole-slice copy keeps the byte-string abstraction
		st.assume(Implies(Eq(d.Len, s.Len), Eq(st.bval(d), sval)))
	}
	return VInt{T: n}
}

// ---- interface methods with built-in meaning -----------------------------------------

var noEffectPkgs = []string{
	"github.com/ipfs/go-log/v2", "go.uber.org/zap", "github.com/go-kit/kit/metrics", "github.com/go-kit/log", "log", "log/slog",
	"github.com/prometheus/client_golang/prometheus", "github.com/rs/zerolog", "cosmossdk.io/log",
}

func isNoEffectPkg(path string) bool {
	for _, p := range noEffectPkgs {
		if path == p || strings.HasPrefix(path, p+"/") {
			return true
		}
	}
	return false
}

func (x *Explorer) ifaceModel(st *State, f *Frame, c *ssa.CallCommon, recv Val, args []Val) (Val, bool) {
	sig := c.Signature()
	var ipkg, iname string
	if n := namedOf(c.Value.Type()); n != nil {
		iname = n.Obj().Name()
		if n.Obj().Pkg() != nil {
			ipkg = n.Obj().Pkg().Path()
		}
	}
	m := c.Method.Name()
	iv, _ := recv.(VIface)
	switch {
	case iname == "error" && m == "Error":
		r := UF("errmsg", SInt, iv.Val)
		return VInt{T: r}, true
	case ipkg == "context" && iname == "Context":
		switch m {
		case "Done":
			return VInt{T: UF("ctxdone_ch", SInt, iv.Val)}, true
		case "Err":
			done := UF("ctxdone", SBool, iv.Val)
			return VIface{Tag: Ite(done, IntLit(x.eng.typeID(types.Typ[types.String])+800000), IntLit(0)), Val: UF("ctxerr", SInt, iv.Val)}, true
		case "Value", "Deadline":
			return x.freshResults(st, sig, "ctx_"+m), true
		}
	case isNoEffectPkg(ipkg):
		return x.freshResults(st, sig, "noeffect"), true
	}
	if c.Method.Pkg() != nil && isNoEffectPkg(c.Method.Pkg().Path()) {
		return x.freshResults(st, sig, "noeffect"), true
	}
	return nil, false
}

func (x *Explorer) freshResults(st *State, sig *types.Signature, hint string) Val {
	vals := make([]Val, sig.Results().Len())
	for i := range vals {
		vals[i] = st.freshVal(sig.Results().At(i).Type(), hint)
	}
	return resultVal(sig, vals)
}

// ---- library functions --------------------------------------------------------------

func fieldPtr(p VPtr, e *Engine, name string) VPtr {
	st := e.pointee(p).Underlying().(*types.Struct)
	for i := 0; i < st.NumFields(); i++ {
		if st.Field(i).Name() == name {
			np := p
			np.Path = append(append([]PathEl{}, p.Path...), PathEl{Field: i})
			return np
		}
	}
	panic("no field " + name + " in " + e.pointee(p).String())
}

func (x *Explorer) errIs(st *State, err, target VIface) *Term {
	same := And(Eq(err.Tag, target.Tag), Eq(err.Val, target.Val))
	in := Select(UF("errset", ArrSort(SBool), err.Val), target.Val)
	return And(Neq(err.Tag, IntLit(0)), Neq(target.Tag, IntLit(0)), Or(same, in))
}

func (x *Explorer) newError(st *State, hint string) VIface {
	v := st.freshInt(hint)
	return VIface{Tag: IntLit(x.eng.typeID(types.Typ[types.String]) + 700000), Val: v}
}

func (x *Explorer) libModel(st *State, f *Frame, ins ssa.Instruction, key string, fn *ssa.Function, args []Val, sig *types.Signature) (Val, bool) {
	e := x.eng
	pkg := key
	if i := strings.LastIndex(key, "/"); i >= 0 {
		if j := strings.Index(key[i:], "."); j >= 0 {
			pkg = key[:i+j]
		}
	} else if j := strings.Index(key, "."); j >= 0 {
		pkg = key[:j]
	}
	if isNoEffectPkg(pkg) {
		return x.freshResults(st, sig, "noeffect"), true
	}
	switch key {
	case "fmt.Errorf":
		r := x.newError(st, "errorf")
		format := ""
		if ft := asInt(args[0]); ft.IsLit() {
			format = e.strByID[ft.Int.Int64()]
		}
		va := args[1].(VSlice)
		anyT := types.NewInterfaceType(nil, nil)
		valArr := st.heapGet("[]"+e.typeKey(anyT)+"#val", ArrSort(ArrSort(SInt)))
		tagArr := st.heapGet("[]"+e.typeKey(anyT)+"#tag", ArrSort(ArrSort(SInt)))
		// locate %w
		verb := 0
		wrapped := -1
		for i := 0; i+1 < len(format); i++ {
			if format[i] != '%' {
				continue
			}
			j := i + 1
			for j < len(format) && strings.ContainsRune("+-# 0123456789.*", rune(format[j])) {
				j++
			}
			if j < len(format) {
				if format[j] == '%' {
					i = j
					continue
				}
				if format[j] == 'w' && wrapped < 0 {
					wrapped = verb
				}
				verb++
				i = j
			}
		}
		if wrapped >= 0 {
			idx := Add(va.Off, IntLit(int64(wrapped)))
			wv := Select(Select(valArr, va.Arr), idx)
			wt := Select(Select(tagArr, va.Arr), idx)
			// Is(r, t) ⇔ Is(wrapped, t): same chain set, plus the wrapped error itself
			st.assume(Implies(Neq(wt, IntLit(0)), And(
				Eq(UF("errset", ArrSort(SBool), r.Val), Store(UF("errset", ArrSort(SBool), wv), wv, tTrue)),
				Eq(UF("msgset", ArrSort(SBool), r.Val), UF("msgset", ArrSort(SBool), wv)))))
			st.assume(Implies(Eq(wt, IntLit(0)), Eq(UF("errset", ArrSort(SBool), r.Val), ConstArr(ArrSort(SBool), tFalse))))
		} else {
			st.assume(Eq(UF("errset", ArrSort(SBool), r.Val), ConstArr(ArrSort(SBool), tFalse)))
			// message facts: a single %v/%s error argument passes its message on
			if verb == 1 && va.Len.IsLit() {
				idx := va.Off
				wv := Select(Select(valArr, va.Arr), idx)
				st.assume(Eq(UF("msgset", ArrSort(SBool), r.Val), UF("msgset", ArrSort(SBool), wv)))
			}
		}
		return r, true
	case "errors.New":
		r := x.newError(st, "errnew")
		st.assume(Eq(UF("errset", ArrSort(SBool), r.Val), ConstArr(ArrSort(SBool), tFalse)))
		st.assume(Eq(UF("errmsg", SInt, r.Val), asInt(args[0])))
		st.assume(Eq(UF("msgset", ArrSort(SBool), r.Val), Store(ConstArr(ArrSort(SBool), tFalse), asInt(args[0]), tTrue)))
		return r, true
	case "errors.Is":
		return VInt{T: x.errIs(st, args[0].(VIface), args[1].(VIface))}, true
	case "errors.As":
		return VInt{T: And(Neq(args[0].(VIface).Tag, IntLit(0)), st.freshSym("errors_as", SBool))}, true
	case "errors.Join":
		s := args[0].(VSlice)
		r := st.freshVal(sig.Results().At(0).Type(), "errjoin").(VIface)
		if s.Len.IsLit() && s.Len.Int.IsInt64() && s.Len.Int.Int64() <= 6 {
			// nil exactly when every argument is nil
			anyT := types.Universe.Lookup("error").Type()
			tagArr := st.heapGet("[]"+e.typeKey(anyT)+"#tag", ArrSort(ArrSort(SInt)))
			var nonNil []*Term
			for i := int64(0); i < s.Len.Int.Int64(); i++ {
				nonNil = append(nonNil, Neq(Select(Select(tagArr, s.Arr), Add(s.Off, IntLit(i))), IntLit(0)))
			}
			st.assume(Eq(Neq(r.Tag, IntLit(0)), Or(nonNil...)))
		}
		st.note("errors.Join: chain/message sets not modelled")
		return r, true
	case "google.golang.org/protobuf/proto.Unmarshal":
		// arbitrary decoding result: every field of the target message becomes unconstrained
		if iv, ok := args[1].(VIface); ok {
			if p, ok := iv.Dyn.(VPtr); ok && p.Alloc == nil {
				st.store(p, st.freshVal(e.pointee(p), "unmarshalled"))
			} else {
				st.note("proto.Unmarshal into an unknown message: not havocked")
			}
		}
		x.assumed["proto.Unmarshal is total: it returns an error or fills the message with arbitrary field values"]++
		return st.freshVal(sig.Results().At(0).Type(), "unmarshal_err"), true
	case "github.com/ipfs/go-datastore.Key.Equal":
		a, ok1 := args[0].(VStruct)
		k2, ok2 := args[1].(VStruct)
		if ok1 && ok2 {
			return VInt{T: Eq(asInt(a.F[0]), asInt(k2.F[0]))}, true
		}
	case "bytes.Equal":
		a, b := args[0].(VSlice), args[1].(VSlice)
		return VInt{T: Eq(st.bval(a), st.bval(b))}, true
	case "strings.Contains":
		a, b := asInt(args[0]), asInt(args[1])
		if a.Op == "uf" && a.Name == "errmsg" {
			return VInt{T: Or(Eq(a, b), Select(UF("msgset", ArrSort(SBool), a.Args[0]), b))}, true
		}
		return VInt{T: Or(Eq(a, b), UF("strcontains", SBool, a, b))}, true
	case "sync.Mutex.Lock", "sync.Mutex.Unlock", "sync.RWMutex.Lock", "sync.RWMutex.Unlock", "sync.RWMutex.RLock", "sync.RWMutex.RUnlock",
		"sync.WaitGroup.Add", "sync.WaitGroup.Done", "sync.WaitGroup.Wait", "sync.Mutex.TryLock", "runtime.Gosched":
		x.assumed["one sequential schedule: "+key+" is a no-op"]++
		return x.freshResults(st, sig, "sync"), true
	case "sync/atomic.Uint64.Load", "sync/atomic.Int64.Load", "sync/atomic.Uint32.Load", "sync/atomic.Int32.Load":
		return st.load(fieldPtr(args[0].(VPtr), e, "v")), true
	case "sync/atomic.Uint64.Store", "sync/atomic.Int64.Store", "sync/atomic.Uint32.Store", "sync/atomic.Int32.Store":
		st.store(fieldPtr(args[0].(VPtr), e, "v"), args[1])
		return nil, true
	case "sync/atomic.Uint64.Add", "sync/atomic.Int64.Add", "sync/atomic.Uint32.Add", "sync/atomic.Int32.Add":
		p := fieldPtr(args[0].(VPtr), e, "v")
		nv := x.binopAdd(st, st.load(p), args[1], e.pointee(p))
		st.store(p, nv)
		return nv, true
	case "sync/atomic.Uint64.CompareAndSwap", "sync/atomic.Int64.CompareAndSwap", "sync/atomic.Uint32.CompareAndSwap", "sync/atomic.Int32.CompareAndSwap":
		p := fieldPtr(args[0].(VPtr), e, "v")
		cur := asInt(st.load(p))
		ok := Eq(cur, asInt(args[1]))
		st.store(p, VInt{T: Ite(ok, asInt(args[2]), cur)})
		return VInt{T: ok}, true
	case "sync/atomic.Bool.Load":
		v := asInt(st.load(fieldPtr(args[0].(VPtr), e, "v")))
		return VInt{T: Neq(v, IntLit(0))}, true
	case "sync/atomic.Bool.Store":
		st.store(fieldPtr(args[0].(VPtr), e, "v"), VInt{T: Ite(asInt(args[1]), IntLit(1), IntLit(0))})
		return nil, true
	case "encoding/binary.littleEndian.PutUint64", "encoding/binary.littleEndian.PutUint32", "encoding/binary.bigEndian.PutUint64", "encoding/binary.bigEndian.PutUint32":
		bits, name := int64(8), "le64"
		if strings.HasSuffix(key, "32") {
			bits, name = 4, "le32"
		}
		if strings.Contains(key, "bigEndian") {
			name = "b" + name[1:]
		}
		b := args[1].(VSlice)
		x.check(st, "index", Ge(b.Len, IntLit(bits)), ins)
		arr := st.heapGet("[]"+e.typeKey(b.Elem), ArrSort(ArrSort(SInt)))
		nrow := st.freshSym("putuint_row", ArrSort(SInt))
		st.heapSet("[]"+e.typeKey(b.Elem), Store(arr, b.Arr, nrow))
		v := asInt(args[2])
		enc := UF(name, SInt, v)
		st.addFact(Eq(UF(name+"dec", SInt, enc), v))
		st.assume(Eq(st.bval(VSlice{Arr: b.Arr, Off: b.Off, Len: IntLit(bits), Cap: b.Cap, Elem: b.Elem}), enc))
		if !b.Len.IsLit() || b.Len.Int.Int64() != bits {
			st.note("binary.PutUint on a longer buffer: other bytes havocked")
		}
		return nil, true
	case "encoding/binary.littleEndian.AppendUint64", "encoding/binary.littleEndian.AppendUint32", "encoding/binary.bigEndian.AppendUint64", "encoding/binary.bigEndian.AppendUint32":
		// append(b, the 4 or 8 bytes of v...): a temporary holding the encoding, then the ordinary append
		bits, name := int64(8), "le64"
		if strings.HasSuffix(key, "32") {
			bits, name = 4, "le32"
		}
		if strings.Contains(key, "bigEndian") {
			name = "b" + name[1:]
		}
		b := args[1].(VSlice)
		tmp := x.newSlice(st, b.Elem, IntLit(bits), IntLit(bits), true)
		arr := st.heapGet("[]"+e.typeKey(b.Elem), ArrSort(ArrSort(SInt)))
		st.heapSet("[]"+e.typeKey(b.Elem), Store(arr, tmp.Arr, st.freshSym("appenduint_row", ArrSort(SInt))))
		v := asInt(args[2])
		enc := UF(name, SInt, v)
		st.addFact(Eq(UF(name+"dec", SInt, enc), v))
		st.assume(Eq(st.bval(tmp), enc))
		return x.doAppend(st, b, tmp), true
	case "encoding/binary.littleEndian.Uint64", "encoding/binary.littleEndian.Uint32", "encoding/binary.bigEndian.Uint64", "encoding/binary.bigEndian.Uint32":
		bits, name := int64(8), "le64"
		if strings.HasSuffix(key, "32") {
			bits, name = 4, "le32"
		}
		if strings.Contains(key, "bigEndian") {
			name = "b" + name[1:]
		}
		b := args[1].(VSlice)
		x.check(st, "index", Ge(b.Len, IntLit(bits)), ins)
		bv := st.bval(VSlice{Arr: b.Arr, Off: b.Off, Len: IntLit(bits), Cap: b.Cap, Elem: b.Elem})
		r := VInt{T: UF(name+"dec", SInt, bv)}
		st.typeFacts(r, sig.Results().At(0).Type())
		return r, true
	case "crypto/sha256.Sum256":
		b := args[0].(VSlice)
		at := sig.Results().At(0).Type().Underlying().(*types.Array)
		bv := st.bval(b)
		row := UF("sha256row", ArrSort(SInt), bv)
		h := UF("sha256", SInt, bv)
		// the 32 bytes of the digest, as a byte string, are sha256(input)
		digest := UF("bval", SInt, row, IntLit(0), IntLit(32))
		st.addFact(Eq(digest, h))
		st.addFact(Eq(UF("blen", SInt, digest), IntLit(32)))
		st.addFact(Eq(UF("sha256^-1#0", SInt, h), bv))
		return VArray{T: at, L: []*Term{row}}, true
	case "strconv.FormatUint":
		// decimal rendering: the same function of the value as fmt.Sprintf("%d", n) (decStr in contracts)
		if b := asInt(args[1]); b.IsLit() && b.Int.Int64() == 10 {
			n := asInt(args[0])
			bx := UF("box:uint64", SInt, n)
			st.addFact(Eq(UF("unbox:uint64", SInt, bx), n))
			r := UF("decstr", SInt, bx)
			st.addFact(Eq(UF("undecstr", SInt, r), bx))
			st.addFact(Ge(UF("strlen", SInt, r), IntLit(1)))
			return VInt{T: r}, true
		}
		return nil, false
	case "encoding/json.Unmarshal":
		// decoding into an integer variable: on success the variable holds a function of the bytes
		// (jsonInt in contracts); on failure its content is not constrained
		data, ok1 := args[0].(VSlice)
		iv, ok2 := args[1].(VIface)
		if !ok1 || !ok2 {
			return nil, false
		}
		p, ok := iv.Dyn.(VPtr)
		if !ok || p.Alloc != nil || p.Ref == nil || len(p.Path) != 0 {
			return nil, false
		}
		pt := st.eng.pointee(p)
		if b, isB := pt.Underlying().(*types.Basic); !isB || b.Info()&types.IsInteger == 0 {
			return nil, false
		}
		errv := st.freshVal(sig.Results().At(0).Type(), "json_err").(VIface)
		nv := st.freshVal(pt, "json_decoded")
		st.assume(Implies(Eq(errv.Tag, IntLit(0)), Eq(asInt(nv), UF("jsonint", SInt, st.bval(data)))))
		st.store(p, nv)
		return errv, true
	case "encoding/hex.EncodeToString":
		b := args[0].(VSlice)
		bv := st.bval(b)
		r := UF("hex", SInt, bv)
		st.addFact(Eq(UF("unhex", SInt, r), bv))
		return VInt{T: r}, true
	case "time.Now":
		prev, _ := st.ghosts["time.now"].(VInt)
		n := st.freshInt("now")
		if prev.T != nil {
			st.assume(Ge(n, prev.T))
		}
		st.ghosts["time.now"] = VInt{T: n}
		return VInt{T: n}, true
	case "time.Since":
		prev, _ := st.ghosts["time.now"].(VInt)
		n := st.freshInt("now")
		if prev.T != nil {
			st.assume(Ge(n, prev.T))
		}
		st.ghosts["time.now"] = VInt{T: n}
		return VInt{T: Sub(n, asInt(args[0]))}, true
	case "time.Until":
		prev, _ := st.ghosts["time.now"].(VInt)
		n := st.freshInt("now")
		if prev.T != nil {
			st.assume(Ge(n, prev.T))
		}
		st.ghosts["time.now"] = VInt{T: n}
		return VInt{T: Sub(asInt(args[0]), n)}, true
	case "time.Time.Before":
		return VInt{T: Lt(asInt(args[0]), asInt(args[1]))}, true
	case "time.Time.After":
		return VInt{T: Gt(asInt(args[0]), asInt(args[1]))}, true
	case "time.Time.Equal":
		return VInt{T: Eq(asInt(args[0]), asInt(args[1]))}, true
	case "time.Time.Compare":
		a, b := asInt(args[0]), asInt(args[1])
		return VInt{T: Ite(Lt(a, b), IntLit(-1), Ite(Gt(a, b), IntLit(1), IntLit(0)))}, true
	case "time.Time.Sub":
		return VInt{T: Sub(asInt(args[0]), asInt(args[1]))}, true
	case "time.Time.Add":
		return VInt{T: Add(asInt(args[0]), asInt(args[1]))}, true
	case "time.Time.UnixNano":
		return VInt{T: asInt(args[0])}, true
	case "time.Time.Unix":
		return VInt{T: Div(asInt(args[0]), IntLit(1000000000))}, true
	case "time.Time.IsZero":
		return VInt{T: Eq(asInt(args[0]), IntLit(0))}, true
	case "time.Time.UTC", "time.Time.Local", "time.Time.Round", "time.Time.Truncate":
		if key == "time.Time.UTC" || key == "time.Time.Local" {
			return args[0], true
		}
	case "time.Unix":
		return VInt{T: Add(Mul(asInt(args[0]), IntLit(1000000000)), asInt(args[1]))}, true
	case "time.Duration.Nanoseconds":
		return VInt{T: asInt(args[0])}, true
	case "time.Duration.Milliseconds":
		return VInt{T: UF("tdiv", SInt, asInt(args[0]), IntLit(1000000))}, true
	case "context.WithTimeout", "context.WithCancel", "context.WithDeadline", "context.WithCancelCause", "context.WithTimeoutCause":
		parent, _ := args[0].(VIface)
		ctx := VIface{Tag: IntLit(e.typeID(types.Typ[types.Int]) + 600000), Val: st.freshInt("ctx")}
		if parent.Val != nil {
			// a cancelled parent cancels the child
			st.addFact(Implies(UF("ctxdone", SBool, parent.Val), UF("ctxdone", SBool, ctx.Val)))
		}
		return VTuple{E: []Val{ctx, VFunc{ID: IntLit(noopFuncID)}}}, true
	case "context.WithValue":
		return args[0], true
	case "time.After", "time.Tick":
		return VInt{T: st.freshInt("timer_ch")}, true
	case "fmt.Sprintf", "fmt.Sprint", "fmt.Sprintln":
		if key == "fmt.Sprintf" {
			if ft := asInt(args[0]); ft.IsLit() && e.strByID[ft.Int.Int64()] == "%d" {
				// decimal rendering of one integer: a function of the value
				va := args[1].(VSlice)
				valArr := st.heapGet("[]"+e.typeKey(types.NewInterfaceType(nil, nil))+"#val", ArrSort(ArrSort(SInt)))
				r := UF("decstr", SInt, Select(Select(valArr, va.Arr), va.Off))
				st.addFact(Ge(UF("strlen", SInt, r), IntLit(1)))
				return VInt{T: r}, true
			}
		}
		r := st.freshInt("sprintf")
		minLen := 0
		if key == "fmt.Sprintf" {
			if ft := asInt(args[0]); ft.IsLit() {
				// every literal (non-verb) character of the format appears in the result
				format := e.strByID[ft.Int.Int64()]
				for i := 0; i < len(format); i++ {
					if format[i] != '%' {
						minLen++
						continue
					}
					j := i + 1
					for j < len(format) && strings.ContainsRune("+-# 0123456789.*[]", rune(format[j])) {
						j++
					}
					if j < len(format) && format[j] == '%' {
						minLen++
					}
					i = j
				}
			}
		}
		st.addFact(Ge(UF("strlen", SInt, r), IntLit(int64(minLen))))
		return VInt{T: r}, true
	case "fmt.Println", "fmt.Printf", "fmt.Print", "fmt.Fprintf", "fmt.Fprintln":
		return x.freshResults(st, sig, "print"), true
	case "context.Background", "context.TODO":
		return VIface{Tag: IntLit(e.typeID(types.Typ[types.Int]) + 600000), Val: IntLit(e.strID("ctx:" + key))}, true
	}
	return nil, false
}

const noopFuncID = 6999999

func (x *Explorer) binopAdd(st *State, a, b Val, t types.Type) Val {
	s := Add(asInt(a), asInt(b))
	return VInt{T: x.wrap(s, t)}
}
