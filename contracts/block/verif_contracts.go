//go:build verif

// Contracts for package block, read by /verif/bin/gocv. Comment-only: with the build tag
// off this file is not part of the build, with it on it compiles to nothing.
package block

//@ func pendingBase.fetch(ctx, store, height) (item, err)
//@   ensures [fetch] err == nil ==> store.has[height] && item == ItemOf(store, height)
//@   ensures [fault] err != nil && store.has[height] ==> store.faulty

//@ func (pb *pendingBase[T]) getPending(ctx) (items, err)
//@   property C06
//@   requires [height-bound] pb.store.height < 18446744073709551615
//@   ensures [range] err == nil ==> len(items) == pb.store.height - pb.lastHeight
//@   ensures [items] err == nil ==> forall k :: 0 <= k && k < len(items) ==> items[k] == ItemOf(pb.store, pb.lastHeight + 1 + k)
//@   ensures [ahead] pb.lastHeight > pb.store.height && !pb.store.faulty ==> err != nil
//@   ensures [frame] pb.lastHeight == old(pb.lastHeight)
//@   loop 1 invariant [idx] lastSubmitted + 1 <= i && i <= height + 1 && len(pending) == i - (lastSubmitted + 1)
//@   loop 1 invariant [items] forall k :: 0 <= k && k < len(pending) ==> pending[k] == ItemOf(pb.store, lastSubmitted + 1 + k)
//@   loop 1 invariant [frame] pb.lastHeight == old(pb.lastHeight)

//@ func (pb *pendingBase[T]) numPending() (n)
//@   property C06 C08
//@   requires [inv] pb.lastHeight <= pb.store.height
//@   ensures [count] !pb.store.faulty ==> n == pb.store.height - pb.lastHeight

//@ func (pb *pendingBase[T]) isEmpty() (r)
//@   property C06 C08
//@   ensures [empty] !pb.store.faulty ==> (r <==> pb.store.height == pb.lastHeight)

//@ func (pb *pendingBase[T]) setLastSubmittedHeight(ctx, newLastSubmittedHeight)
//@   property C06
//@   ensures [monotone] pb.lastHeight == max(old(pb.lastHeight), newLastSubmittedHeight)
//@   ensures [persisted] pb.lastHeight != old(pb.lastHeight) && !pb.store.faulty
//@                         ==> pb.store.metaHas[pb.metaKey] && pb.store.meta[pb.metaKey] == le64(pb.lastHeight)
//@   ensures [quiet] pb.lastHeight == old(pb.lastHeight) ==> pb.store.meta == old(pb.store.meta)

//@ func (pb *pendingBase[T]) init() (err)
//@   property C06
//@   ensures [restart] err == nil && pb.store.metaHas[pb.metaKey] && old(pb.lastHeight) == 0
//@                         ==> pb.lastHeight == le64dec(pb.store.meta[pb.metaKey])
//@   ensures [absent] !pb.store.metaHas[pb.metaKey] && !pb.store.faulty ==> err == nil && pb.lastHeight == old(pb.lastHeight)
//@   ensures [corrupt] pb.store.metaHas[pb.metaKey] && blen(pb.store.meta[pb.metaKey]) != 8 ==> err != nil
//@   ensures [never-back] pb.lastHeight >= old(pb.lastHeight)
