//go:build verif

// Contracts for package block, read by /verif/bin/gocv. Comment-only: with the build tag
// off this file is not part of the build, with it on it compiles to nothing.
package block

//@ func pendingBase.fetch(ctx, store, height) (item, err)
//@   ensures [fetch] err == nil ==> store.has[height] && item == ItemOf(store, height)
//@   ensures [fault] err != nil && store.has[height] ==> store.faulty

//@ func (pb *pendingBase[T]) getPending(ctx) (items, err)
//@   property C06
//@   requires [height-bound] pb.store.height < 18446744073709551615
//@   ensures [range] err == nil ==> len(items) == pb.store.height - pb.lastHeight
//@   ensures [items] err == nil ==> forall k :: 0 <= k && k < len(items) ==> items[k] == ItemOf(pb.store, pb.lastHeight + 1 + k)
//@   ensures [ahead] pb.lastHeight > pb.store.height && !pb.store.faulty ==> err != nil
//@   ensures [frame] pb.lastHeight == old(pb.lastHeight)
//@   loop 1 invariant [idx] lastSubmitted + 1 <= i && i <= height + 1 && len(pending) == i - (lastSubmitted + 1)
//@   loop 1 invariant [items] forall k :: 0 <= k && k < len(pending) ==> pending[k] == ItemOf(pb.store, lastSubmitted + 1 + k)
//@   loop 1 invariant [frame] pb.lastHeight == old(pb.lastHeight)

//@ func (pb *pendingBase[T]) numPending() (n)
//@   property C06 C08
//@   ensures [count] !pb.store.faulty && pb.lastHeight <= pb.store.height ==> n == pb.store.height - pb.lastHeight
//@   ensures [count-wrap] !pb.store.faulty && pb.lastHeight > pb.store.height ==> n == pb.store.height - pb.lastHeight + 18446744073709551616
//@   ensures [frame] pb.lastHeight == old(pb.lastHeight)

//@ func (pb *pendingBase[T]) isEmpty() (r)
//@   property C06 C08
//@   ensures [empty] !pb.store.faulty ==> (r <==> pb.store.height == pb.lastHeight)

//@ func (pb *pendingBase[T]) setLastSubmittedHeight(ctx, newLastSubmittedHeight)
//@   property C06
//@   modifies pb.lastHeight, durable pb.store.meta[pb.metaKey], durable pb.store.metaHas[pb.metaKey]
//@   ensures [monotone] pb.lastHeight == max(old(pb.lastHeight), newLastSubmittedHeight)
//@   ensures [persisted] pb.lastHeight != old(pb.lastHeight) && !pb.store.faulty
//@                         ==> pb.store.metaHas[pb.metaKey] && pb.store.meta[pb.metaKey] == le64(pb.lastHeight)
//@   ensures [quiet] pb.lastHeight == old(pb.lastHeight) ==> pb.store.meta == old(pb.store.meta)

//@ func (pb *pendingBase[T]) init() (err)
//@   property C06
//@   modifies pb.lastHeight
//@   ensures [restart] err == nil && pb.store.metaHas[pb.metaKey] && old(pb.lastHeight) == 0
//@                         ==> pb.lastHeight == le64dec(pb.store.meta[pb.metaKey])
//@   ensures [absent] !pb.store.metaHas[pb.metaKey] && !pb.store.faulty ==> err == nil && pb.lastHeight == old(pb.lastHeight)
//@   ensures [corrupt] pb.store.metaHas[pb.metaKey] && blen(pb.store.meta[pb.metaKey]) != 8 ==> err != nil
//@   ensures [never-back] pb.lastHeight >= old(pb.lastHeight)

//@ func submitToDA[T](m, ctx, items, marshalFn, postSubmit, itemType) (err)
//@   property C06
//@   modifies m.headerCache.daInc, m.headerCache.daIncHas, m.dataCache.daInc, m.dataCache.daIncHas,
//@            m.pendingHeaders.base.lastHeight, m.pendingData.base.lastHeight, durable m.store.meta, durable m.store.metaHas
//@   requires [same-store] m.pendingHeaders.base.store == m.store && m.pendingData.base.store == m.store
//@   param postSubmit modifies m.headerCache.daInc, m.headerCache.daIncHas, m.dataCache.daInc, m.dataCache.daIncHas,
//@            m.pendingHeaders.base.lastHeight, m.pendingData.base.lastHeight, durable m.store.meta, durable m.store.metaHas
//@   nopanic
//@   requires [m] m != nil && m.metrics != nil
//@   param marshalFn(item) (bz, e) ensures [marshal] e == nil ==> val(bz) == coreda_Marshal(item)
//@   param postSubmit(sub, res, gp) requires [success-only] res.Code == coreda.StatusSuccess
//@   param postSubmit requires [prefix-only] sub == remaining[:res.SubmittedCount] && res.SubmittedCount <= len(remaining)
//@   param postSubmit requires [blob-is-item] forall j :: 0 <= j && j < len(sub) ==> val(currMarshaled[j]) == coreda_Marshal(sub[j])
//@   observe swh := call SubmitWithHelpers
//@   loop 1 invariant [marshal] forall k :: 0 <= k && k <= rangeindex && k < len(items) ==> val(marshaled[k]) == coreda_Marshal(items[k])
//@   loop 1 invariant [len] len(marshaled) == len(items) && rangeindex >= -1 && marshaled.arr != items.arr
//@   loop 2 invariant [aligned-len] len(remaining) == len(marshaled)
//@   loop 2 invariant [aligned] forall k :: 0 <= k && k < len(remaining) ==> val(marshaled[k]) == coreda_Marshal(remaining[k])
//@   loop 2 invariant [suffix] remaining == items[len(items)-len(remaining):] && len(remaining) <= len(items)
//@   loop 2 invariant [all] submittedAll ==> len(remaining) == 0
//@   ensures [all-or-error] err == nil ==> len(remaining) == 0 || ctxDone(ctx) || (swh && swh.res0.Code == coreda.StatusContextCanceled)

// The two callbacks submitHeadersToDA hands to submitToDA.
// Assumed (trusted) for now: the bytes are a function of the item (proto.Marshal . ToProto);
// that they decode back to the item is the subject of C12.
//@ func (m *Manager) submitHeadersToDA$1(header) (bz, err)
//@   trusted
//@   ensures [marshal] err == nil ==> val(bz) == coreda_Marshal(header)

//@ func (m *Manager) submitHeadersToDA$2(submitted, res, gasPrice)
//@   property C06 C07
//@   modifies m.headerCache.daInc, m.headerCache.daIncHas, m.pendingHeaders.base.lastHeight,
//@            durable m.pendingHeaders.base.store.meta[m.pendingHeaders.base.metaKey], durable m.pendingHeaders.base.store.metaHas[m.pendingHeaders.base.metaKey]
//@   requires [success-only] res != nil && res.Code == coreda.StatusSuccess
//@   requires [m] m != nil && m.headerCache != nil && m.pendingHeaders != nil && m.pendingHeaders.base != nil
//@   requires [items] forall j :: 0 <= j && j < len(submitted) ==> submitted[j] != nil
//@   loop 1 invariant [marked] forall j :: 0 <= j && j <= rangeindex && j < len(submitted)
//@                       ==> m.headerCache.daIncHas[hexstr(HashHdr(HdrOf(submitted[j])))] && m.headerCache.daInc[hexstr(HashHdr(HdrOf(submitted[j])))] == res.Height
//@   loop 1 invariant [frame] m.pendingHeaders.base.lastHeight == old(m.pendingHeaders.base.lastHeight) && rangeindex >= -1
//@   ensures [mark] forall j :: 0 <= j && j < len(submitted)
//@                       ==> m.headerCache.daIncHas[hexstr(HashHdr(HdrOf(submitted[j])))] && m.headerCache.daInc[hexstr(HashHdr(HdrOf(submitted[j])))] == res.Height
//@   ensures [watermark] len(submitted) > 0 ==> m.pendingHeaders.base.lastHeight == max(old(m.pendingHeaders.base.lastHeight), submitted[len(submitted)-1].BaseHeader.Height)
//@   ensures [watermark-empty] len(submitted) == 0 ==> m.pendingHeaders.base.lastHeight == old(m.pendingHeaders.base.lastHeight)

//@ func (m *Manager) submitDataToDA$1(signedData) (bz, err)
//@   trusted
//@   ensures [marshal] err == nil ==> val(bz) == coreda_Marshal(signedData)

//@ func (m *Manager) submitDataToDA$2(submitted, res, gasPrice)
//@   property C06 C07
//@   modifies m.dataCache.daInc, m.dataCache.daIncHas, m.pendingData.base.lastHeight,
//@            durable m.pendingData.base.store.meta[m.pendingData.base.metaKey], durable m.pendingData.base.store.metaHas[m.pendingData.base.metaKey]
//@   requires [success-only] res != nil && res.Code == coreda.StatusSuccess
//@   requires [m] m != nil && m.dataCache != nil && m.pendingData != nil && m.pendingData.base != nil
//@   requires [items] forall j :: 0 <= j && j < len(submitted) ==> submitted[j] != nil && submitted[j].Data.Metadata != nil
//@   loop 1 invariant [marked] forall j :: 0 <= j && j <= rangeindex && j < len(submitted)
//@                       ==> m.dataCache.daIncHas[hexstr(CommitTxs(TxsId(submitted[j].Data.Txs)))] && m.dataCache.daInc[hexstr(CommitTxs(TxsId(submitted[j].Data.Txs)))] == res.Height
//@   loop 1 invariant [frame] m.pendingData.base.lastHeight == old(m.pendingData.base.lastHeight) && rangeindex >= -1
//@   ensures [mark] forall j :: 0 <= j && j < len(submitted)
//@                       ==> m.dataCache.daIncHas[hexstr(CommitTxs(TxsId(submitted[j].Data.Txs)))] && m.dataCache.daInc[hexstr(CommitTxs(TxsId(submitted[j].Data.Txs)))] == res.Height
//@   ensures [watermark] len(submitted) > 0 ==> m.pendingData.base.lastHeight == max(old(m.pendingData.base.lastHeight), submitted[len(submitted)-1].Data.Metadata.Height)
//@   ensures [watermark-empty] len(submitted) == 0 ==> m.pendingData.base.lastHeight == old(m.pendingData.base.lastHeight)

// ---- C07: DA-included height ---------------------------------------------------------

//@ pred DAIncPersisted(m) := (m.store.metaHas["d"] && le64dec(m.store.meta["d"]) == m.daIncludedHeight && blen(m.store.meta["d"]) == 8)
//@                            || (!m.store.metaHas["d"] && m.daIncludedHeight == 0)

//@ func (m *Manager) incrementDAIncludedHeight(ctx) (err)
//@   property C07
//@   modifies m.daIncludedHeight, durable m.store.meta["d"], durable m.store.metaHas["d"], m.exec.finalized
//@   requires [inv] DAIncPersisted(m)
//@   requires [bound] m.daIncludedHeight < 18446744073709551615
//@   observe fin := call SetFinal@1
//@   observe per := call SetMetadata@1
//@   ensures [plus-one] err == nil ==> m.daIncludedHeight == old(m.daIncludedHeight) + 1
//@   ensures [kept] err != nil ==> m.daIncludedHeight == old(m.daIncludedHeight)
//@   ensures [final-first] err == nil ==> fin && fin.arg2 == m.daIncludedHeight && fin.count == 1
//@   ensures [durable] err == nil ==> DAIncPersisted(m)
//@   ensures [persist-only-plus-one] per ==> le64dec(m.store.meta["d"]) == old(m.daIncludedHeight) + 1 || m.store.faulty
//@   crash_inv [finalize-before-persist] fin && fin.arg2 == old(m.daIncludedHeight) + 1
//@   crash_inv [report-after-persist] m.daIncludedHeight == old(m.daIncludedHeight)

//@ func (m *Manager) GetDAIncludedHeight() (h)
//@   property C07
//@   ensures [get] h == m.daIncludedHeight

//@ pred HdrMarked(m, h) := m.headerCache.daIncHas[hexstr(HashHdr(m.store.hdrAt[h]))]
//@ pred DataMarkedOrEmpty(m, h) := CommitTxs(m.store.txsAt[h]) == val(dataHashForEmptyTxs) || m.dataCache.daIncHas[hexstr(CommitTxs(m.store.txsAt[h]))]

//@ func (m *Manager) IsDAIncluded(ctx, height) (ok, err)
//@   property C07
//@   requires [m] m.headerCache != nil && m.dataCache != nil
//@   ensures [gate] err == nil && ok ==> height <= m.store.height && m.store.has[height] && HdrMarked(m, height) && DataMarkedOrEmpty(m, height)
//@   ensures [complete] !m.store.faulty && height <= m.store.height && m.store.has[height] && HdrMarked(m, height) && DataMarkedOrEmpty(m, height) ==> ok && err == nil
//@   ensures [beyond] !m.store.faulty && height > m.store.height ==> !ok && err == nil
//@   ensures [frame] m.daIncludedHeight == old(m.daIncludedHeight) && m.store.meta == old(m.store.meta) && m.headerCache.daIncHas == old(m.headerCache.daIncHas)

//@ func (m *Manager) SetRollkitHeightToDAHeight(ctx, height) (err)
//@   property C07
//@   modifies durable m.store.meta, durable m.store.metaHas
//@   requires [m] m.headerCache != nil && m.dataCache != nil
//@   observe sm1 := call SetMetadata@1
//@   observe sm2 := call SetMetadata@2
//@   ensures [rhb-header] err == nil ==> sm1 && HdrMarked(m, height) && val(sm1.arg3) == le64(m.headerCache.daInc[hexstr(HashHdr(m.store.hdrAt[height]))])
//@   ensures [rhb-data] err == nil && CommitTxs(m.store.txsAt[height]) != val(dataHashForEmptyTxs)
//@                       ==> sm2 && val(sm2.arg3) == le64(m.dataCache.daInc[hexstr(CommitTxs(m.store.txsAt[height]))])
//@   ensures [rhb-empty] err == nil && CommitTxs(m.store.txsAt[height]) == val(dataHashForEmptyTxs)
//@                       ==> sm2 && val(sm2.arg3) == le64(m.headerCache.daInc[hexstr(HashHdr(m.store.hdrAt[height]))])
//@   ensures [frame] m.daIncludedHeight == old(m.daIncludedHeight) && m.store.meta["d"] == old(m.store.meta["d"]) && m.store.metaHas["d"] == old(m.store.metaHas["d"])

//@ func (m *Manager) DAIncluderLoop(ctx, errCh)
//@   property C07
//@   modifies m.daIncludedHeight, durable m.store.meta, durable m.store.metaHas, m.exec.finalized
//@   requires [m] m.headerCache != nil && m.dataCache != nil
//@   requires [inv] DAIncPersisted(m) && m.daIncludedHeight <= m.store.height
//@   requires [height-bound] m.store.height < 18446744073709551615
//@   observe isda := call IsDAIncluded
//@   observe inc := call incrementDAIncludedHeight
//@   observe rhb := call SetRollkitHeightToDAHeight
//@   loop 1 invariant [persisted] DAIncPersisted(m) && m.daIncludedHeight <= m.store.height
//@   loop 2 invariant [persisted] DAIncPersisted(m) && m.daIncludedHeight <= m.store.height
//@   loop 2 invariant [track] currentDAIncluded == m.daIncludedHeight
//@   loop 2 invariant [gate] inc ==> isda && isda.res0 && isda.res1 == nil && isda.arg2 == m.daIncludedHeight && rhb && rhb.arg2 == m.daIncludedHeight
//@   loop 2 invariant [one-step] inc.count <= 1
