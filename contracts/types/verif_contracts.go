//go:build verif

// Contracts for package types, read by /verif/bin/gocv. Comment-only.
package types

//@ func SubmitWithHelpers(ctx, da, logger, data, gasPrice, options) (res)
//@   property C06 C16
//@   observe sub := call SubmitWithOptions@1
//@   ensures [called-once] sub.count == 1
//@   ensures [count-le] res.SubmittedCount <= len(data)
//@   ensures [count-ids] res.Code == coreda.StatusSuccess ==> res.SubmittedCount == len(res.IDs) && len(res.IDs) == len(sub.res0)
//@   ensures [success-iff] res.Code == coreda.StatusSuccess <==> (sub.res1 == nil && (len(sub.res0) > 0 || len(data) == 0))
//@   ensures [progress] res.Code == coreda.StatusSuccess && len(data) > 0 ==> res.SubmittedCount > 0
//@   ensures [cancel] sub.res1 != nil && isErr(sub.res1, context.Canceled) ==> res.Code == coreda.StatusContextCanceled
//@   ensures [timeout] sub.res1 != nil && !isErr(sub.res1, context.Canceled) && isErr(sub.res1, coreda.ErrTxTimedOut) ==> res.Code == coreda.StatusNotIncludedInBlock
//@   ensures [mempool] sub.res1 != nil && !isErr(sub.res1, context.Canceled) && !isErr(sub.res1, coreda.ErrTxTimedOut)
//@                        && isErr(sub.res1, coreda.ErrTxAlreadyInMempool) ==> res.Code == coreda.StatusAlreadyInMempool
//@   ensures [toobig] sub.res1 != nil && !isErr(sub.res1, context.Canceled) && !isErr(sub.res1, coreda.ErrTxTimedOut)
//@                        && !isErr(sub.res1, coreda.ErrTxAlreadyInMempool) && !isErr(sub.res1, coreda.ErrTxIncorrectAccountSequence)
//@                        && isErr(sub.res1, coreda.ErrBlobSizeOverLimit) ==> res.Code == coreda.StatusTooBig
//@   ensures [other-error] sub.res1 != nil ==> res.Code != coreda.StatusSuccess
//@   ensures [blobs] sub.arg2 == data
