#!/bin/sh
# Copies the master contract files (/verif/contracts/<pkg>/verif_contracts.go) into /repo and
# commits them there as hook commits (build tag verif, comment-only), then records the
# commit ids in MANIFEST.hooks.source_commits.
set -eu
cd /verif/contracts
changed=0
for f in $(find . -name verif_contracts.go | sort); do
  d=$(dirname "$f")
  mkdir -p "/repo/$d"
  if ! cmp -s "$f" "/repo/$d/verif_contracts.go"; then
    cp "$f" "/repo/$d/verif_contracts.go"
    git -C /repo add "$d/verif_contracts.go"
    git -C /repo commit -q -m "verif: contracts for ${d#./} (build tag verif, comment-only)" -- "$d/verif_contracts.go"
    changed=1
  fi
done
commits=$(git -C /repo log --format=%h --grep='^verif:' | tr '\n' ' ')
/opt/veriftools/pyvenv/bin/python - "$commits" <<'PY'
import json,sys
m=json.load(open('/verif/MANIFEST.json'))
m['hooks']['source_commits']=sys.argv[1].split()
json.dump(m,open('/verif/MANIFEST.json','w'),indent=1)
PY
echo "synced (changed=$changed)"
