#!/bin/sh
# usage: run_finding.sh <module-dir-relative-to-/repo> <pkg> <harness-dir-under-/verif/replay> <finding-file> <TestName>
# Injects the harness and one finding test into the package with `go test -overlay` and runs it.
set -u
mod=$1; pkg=$2; hdir=$3; ffile=$4; tname=$5
tmp=$(mktemp -d /var/tmp/gocvreplay.XXXXXX)
trap 'rm -rf "$tmp"' EXIT
repo=${VERIF_REPO:-/repo}
pkgdir=$repo/$mod/$pkg
{
  printf '{"Replace":{'
  first=1
  for h in /verif/replay/$hdir/*.go.txt; do
    [ -f "$h" ] || continue
    b=$(basename "$h" .go.txt)
    [ $first -eq 1 ] || printf ','
    first=0
    printf '"%s/zz_verif_%s.go":"%s"' "$pkgdir" "$b" "$h"
  done
  [ $first -eq 1 ] || printf ','
  printf '"%s/zz_verif_finding_test.go":"%s"' "$pkgdir" "$ffile"
  printf '}}'
} > "$tmp/ov.json"
cd $repo/$mod && GOFLAGS=-mod=mod GOPROXY=off go test -overlay "$tmp/ov.json" -vet=off -count=1 -timeout 120s -run "^$tname\$" ./$pkg 2>&1
