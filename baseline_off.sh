#!/bin/sh
# Runs the repository's test suite with the verif build tag OFF (the contract files are
# //go:build verif and comment-only, so they are not part of this build).
set -u
MODS=". apps/evm/based apps/evm/single apps/testapp core da execution/evm sequencers/based sequencers/single test/docker-e2e test/e2e"
[ -f /w/out/gomods.txt ] && MODS=$(cat /w/out/gomods.txt)
rc=0
for m in $MODS; do
  (cd /repo/$m && GOFLAGS=-mod=mod GOPROXY=off go test -vet=off -count=1 -timeout 25m ./...) || rc=1
done
exit $rc
