#!/bin/sh
# Evaluates every seeded change under /verif/seeded against the quick check of its property, each in
# a scratch worktree (see eval_one_seed.sh). The evidence files under /verif/evidence are rewritten by
# these runs: run tools/run_all.sh afterwards to have them describe the unchanged tree again.
cd /verif
for d in seeded/*/; do
  tools/eval_one_seed.sh $(basename $d) | head -1
done
