#!/bin/sh
# Applies every seeded change under /verif/seeded to /repo, runs the checks of the property it
# breaks (meta.json "property", or the name prefix), records what was reported, and reverts.
cd /verif
for d in seeded/*/; do
  n=$(basename $d)
  prop=$(echo $n | cut -c1-3)
  [ -n "$(git -C /repo status --short)" ] && { echo "/repo not clean"; exit 2; }
  git -C /repo apply /verif/$d/patch.diff || { echo "$n: patch does not apply"; continue; }
  out=$(bin/gocv check -property $prop -tier quick 2>&1)
  git -C /repo checkout -- .
  echo "$out" | grep -E "VIOLATION|ENGINE-ERROR" | sed 's/replay=[^ ]* //' | cut -c1-200 > $d/detection.txt
  echo "$out" | tail -1 >> $d/detection.txt
  if grep -q VIOLATION $d/detection.txt; then echo "$n: DETECTED ($(grep -c VIOLATION $d/detection.txt) obligations)"; else echo "$n: MISSED"; fi
done
