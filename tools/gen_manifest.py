#!/opt/veriftools/pyvenv/bin/python
# Regenerates /verif/MANIFEST.json from tools/claims.json (what is claimed, with which words)
# and properties.jsonl. Keeps hooks.source_commits.
import json, os
root = os.path.dirname(os.path.dirname(os.path.abspath(__file__)))
props = [json.loads(l) for l in open(os.path.join(root, 'properties.jsonl'))]
claims = json.load(open(os.path.join(root, 'tools', 'claims.json')))
old = json.load(open(os.path.join(root, 'MANIFEST.json')))
m = {
 "version": 1,
 "setup_cmd": "cd engine && GOFLAGS=-mod=mod GOPROXY=off go build -o ../bin/gocv ./cmd/gocv",
 "hooks": {
  "guard": "verif",
  "enable": "contracts live in comment-only files <pkg>/verif_contracts.go guarded by //go:build verif; gocv loads /repo with -tags=verif and reads them (no executable code is added)",
  "baseline_off_cmd": "/verif/baseline_off.sh",
  "source_commits": old.get("hooks", {}).get("source_commits", []),
  "add_only": True,
 },
 "engines": [{
  "name": "gocv",
  "path": "engine/cmd/gocv",
  "serves_properties": sorted(claims["checks"].keys()),
  "kind_free_text": "contract-based deductive verifier for Go written for this task: go/ssa (naive form) of the real code, per-path weakest-precondition-style symbolic execution cut at loop heads by invariants and at calls by callee contracts, obligations discharged by z3 5.1.0 / cvc5 / z3 4.8.12",
 }],
 "checks": [],
 "notes": claims.get("notes", ""),
 "not_applicable": [],
}
for p in props:
    pid = p["id"]
    c = claims["checks"].get(pid)
    if c:
        m["checks"].append({
         "property_id": pid,
         "quick_cmd": f"bin/gocv check -property {pid} -tier quick",
         "thorough_cmd": f"bin/gocv check -property {pid} -tier thorough",
         "evidence_file": f"evidence/{pid}.json",
         "replay_cmd_template": "bin/gocv replay {path}",
         "engine": "gocv",
         "level_claimed": {"category": "proof", "text": c["text"], "design_ref": c.get("design_ref", "DESIGN.md section 6, " + pid)},
         "level_note": c["note"],
         "technique": c.get("technique", "contract-based deductive verification: requires/ensures/loop invariants/crash invariants on the real functions (go/ssa), verification conditions generated per path and discharged by SMT (z3, cvc5)"),
        })
    else:
        m["not_applicable"].append({"property_id": pid, "reason": claims["not_applicable"].get(pid, "no check built yet")})
json.dump(m, open(os.path.join(root, 'MANIFEST.json'), 'w'), indent=1)
print("checks:", [c["property_id"] for c in m["checks"]])
