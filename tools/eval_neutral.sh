#!/bin/sh
# usage: eval_neutral.sh <name> [property]
# Applies neutral/<name>/patch.diff (a behaviour-preserving change) to a scratch worktree of /repo and
# runs the quick check of its property there: the check must stay quiet (exit 0, no VIOLATION).
cd /verif
n=$1; prop=${2:-$(echo $n | cut -c1-3)}; d=neutral/$n
wt=/var/tmp/neutraleval_$n
git -C /repo worktree remove --force $wt 2>/dev/null
git -C /repo worktree add -q --detach $wt HEAD || exit 2
if ! git -C $wt apply /verif/$d/patch.diff; then echo "$n: patch does not apply"; git -C /repo worktree remove --force $wt; exit 2; fi
out=$(VERIF_EVIDENCE=/var/tmp/seedeval_evidence VERIF_REPO=$wt bin/gocv check -property $prop -tier quick 2>&1); st=$?
git -C /repo worktree remove --force $wt
echo "$out" | grep -E "VIOLATION|ENGINE-ERROR" | sed 's/replay=[^ ]* //' | cut -c1-260 > $d/result.txt
echo "$out" | tail -1 >> $d/result.txt
if [ $st -eq 0 ] && ! grep -q "VIOLATION\|ENGINE-ERROR" $d/result.txt; then echo "$n: QUIET"; else echo "$n: ALARM (exit $st, $(grep -c VIOLATION $d/result.txt) obligations)"; fi
head -6 $d/result.txt
