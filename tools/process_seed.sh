#!/bin/sh
# usage: process_seed.sh <PROP> <suffix> <moddir> <pkgdir> [test pkgs]  - confirm /tmp/seed_out/<PROP> as seeded/<PROP>_<suffix> and evaluate it
p=$1; s=$2; mod=$3; pkg=$4; shift 4
MODDIR=$mod /verif/tools/confirm_seed.sh ${p}_$s /tmp/seed_out/$p $pkg ${*:-./$pkg/...} > /tmp/confirm_${p}_$s.log 2>&1
grep -A3 "must fail\|must pass" /tmp/confirm_${p}_$s.log | grep -E "^ok|FAIL|must|no test" | cut -c1-160 | head -8
/verif/tools/eval_one_seed.sh ${p}_$s | head -4
python3 -c "
import json
try:
    m=json.load(open('/tmp/seed_out/$p/meta.json')); print('demo:', m.get('demo_test'), '| files:', m.get('files_changed'))
except Exception as e: print('meta?', e)"
