#!/bin/sh
# Runs every registered quick check and prints one line per property; exit 1 if any is not clean.
cd /verif
rc=0
for p in $(/opt/veriftools/pyvenv/bin/python -c "import json;print(' '.join(c['property_id'] for c in json.load(open('MANIFEST.json'))['checks']))"); do
  out=$(bin/gocv check -property $p -tier quick 2>&1); st=$?
  echo "$out" | grep -E "VIOLATION|ENGINE-ERROR" | cut -c1-220
  echo "$out" | tail -1 | sed "s/^/[exit $st] /"
  [ $st -eq 0 ] || rc=1
done
exit $rc
