#!/bin/sh
# usage: process_neutral2.sh <PROP>  - file /tmp/seed_out/M<PROP> as neutral/<PROP>_m and evaluate it
p=$1; d=/verif/neutral/${p}_m
mkdir -p $d
cp /tmp/seed_out/M$p/patch.diff /tmp/seed_out/M$p/meta.json $d/ 2>/dev/null
/verif/tools/eval_neutral.sh ${p}_m
