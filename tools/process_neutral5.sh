#!/bin/sh
# usage: process_neutral5.sh <PROP>  - file /tmp/seed_out/R<PROP> as neutral/<PROP>_r and evaluate it
p=$1; d=/verif/neutral/${p}_r
mkdir -p $d
cp /tmp/seed_out/R$p/patch.diff /tmp/seed_out/R$p/meta.json $d/ 2>/dev/null
/verif/tools/eval_neutral.sh ${p}_r
