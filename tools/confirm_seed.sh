#!/bin/sh
# usage: [MODDIR=<module dir relative to repo root>] confirm_seed.sh <seed-name> <dir-with-patch.diff-and-demo> <demo-target-pkg-dir relative to the module> [test packages...]
# Confirms in a scratch worktree: the change compiles, the existing tests pass, the demo fails
# with the change and passes without it. Stores the seed under /verif/seeded/<seed-name>/.
set -u
name=$1; src=$2; pkgdir=$3; shift 3
pkgs=${*:-./block/... ./types/...}
moddir=${MODDIR:-.}
wt=/tmp/wt_confirm_$name
export GOFLAGS=-mod=mod GOPROXY=off
git -C /repo worktree add -q --detach $wt HEAD || exit 2
cd $wt
demo=$(ls $src/*_test.go | head -1)
res=/tmp/confirm_$name.txt
: > $res
git apply $src/patch.diff || { echo "patch does not apply" | tee -a $res; }
cd $wt/$moddir
( go build ./... && echo "BUILD ok" || echo "BUILD FAILED" ) 2>&1 | tail -3 | tee -a $res
( go test -vet=off -count=1 $pkgs 2>&1 | grep -v "no test files" | tail -15 ) | tee -a $res
cp $demo $pkgdir/zz_seed_demo_test.go
echo "--- demo WITH change (must fail):" | tee -a $res
( go test -vet=off -count=1 -run 'Seed|ZZSeed' ./$pkgdir 2>&1 | tail -6 ) | tee -a $res
rm -f $pkgdir/zz_seed_demo_test.go
cd $wt && git checkout -q -- . && cd $wt/$moddir
cp $demo $pkgdir/zz_seed_demo_test.go
echo "--- demo WITHOUT change (must pass):" | tee -a $res
( go test -vet=off -count=1 -run 'Seed|ZZSeed' ./$pkgdir 2>&1 | tail -4 ) | tee -a $res
cd /; git -C /repo worktree remove --force $wt
mkdir -p /verif/seeded/$name
cp $src/patch.diff $demo /verif/seeded/$name/
cp $src/meta.json /verif/seeded/$name/meta.json 2>/dev/null
cp $res /verif/seeded/$name/confirmation.txt
