#!/usr/bin/env python3
# Runs the repository's tests (guard off) with -json in every module and compares the set of
# passing tests with BASELINE.json's stable_pass. Prints the stable tests that did not pass.
import json, subprocess, os, sys
b = json.load(open('/root/.vp/BASELINE.json'))
mods = open('/w/out/gomods.txt').read().split() if os.path.exists('/w/out/gomods.txt') else ". apps/evm/based apps/evm/single apps/testapp core da execution/evm sequencers/based sequencers/single test/docker-e2e test/e2e".split()
passed = set()
env = dict(os.environ, GOFLAGS='-mod=mod', GOPROXY='off')
for m in mods:
    p = subprocess.run(['go', 'test', '-json', '-vet=off', '-count=1', '-timeout', '25m', './...'], cwd=os.path.join('/repo', m), env=env, capture_output=True, text=True)
    for line in p.stdout.splitlines():
        try:
            ev = json.loads(line)
        except Exception:
            continue
        if ev.get('Action') == 'pass' and ev.get('Test'):
            passed.add(ev['Package'] + '::' + ev['Test'])
missing = [t for t in b['stable_pass'] if t not in passed]
print(f"stable_pass={len(b['stable_pass'])} passed_now={len(passed)} stable_not_passing={len(missing)}")
for t in missing:
    print("  MISSING", t)
sys.exit(1 if missing else 0)
