#!/bin/sh
# Runs the must-fail corpus property by property (one process each) and prints a summary line per property.
cd /verif
rc=0
for f in selftest/C*.json; do
  p=$(basename $f .json)
  out=$(bin/gocv selftest -property $p 2>&1); st=$?
  echo "$out" | grep "^SELFTEST" | cut -c1-300
  echo "$out" | tail -1 | sed "s/^/$p /"
  [ $st -eq 0 ] || rc=1
done
exit $rc
