#!/bin/sh
# usage: process_neutral7.sh <PROP>  - file /tmp/seed_out/T<PROP> as neutral/<PROP>_t and evaluate it
p=$1; d=/verif/neutral/${p}_t
mkdir -p $d
cp /tmp/seed_out/T$p/patch.diff /tmp/seed_out/T$p/meta.json $d/ 2>/dev/null
/verif/tools/eval_neutral.sh ${p}_t
