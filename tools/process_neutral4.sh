#!/bin/sh
# usage: process_neutral4.sh <PROP>  - file /tmp/seed_out/Q<PROP> as neutral/<PROP>_q and evaluate it
p=$1; d=/verif/neutral/${p}_q
mkdir -p $d
cp /tmp/seed_out/Q$p/patch.diff /tmp/seed_out/Q$p/meta.json $d/ 2>/dev/null
/verif/tools/eval_neutral.sh ${p}_q
