#!/bin/sh
# usage: process_neutral6.sh <PROP>  - file /tmp/seed_out/S<PROP> as neutral/<PROP>_s and evaluate it
p=$1; d=/verif/neutral/${p}_s
mkdir -p $d
cp /tmp/seed_out/S$p/patch.diff /tmp/seed_out/S$p/meta.json $d/ 2>/dev/null
/verif/tools/eval_neutral.sh ${p}_s
