#!/bin/sh
# Runs every registered thorough check (60 s solver cap, finding replays, must-fail corpus).
cd /verif
rc=0
for p in $(/opt/veriftools/pyvenv/bin/python -c "import json;print(' '.join(c['property_id'] for c in json.load(open('MANIFEST.json'))['checks']))"); do
  out=$(bin/gocv check -property $p -tier thorough 2>&1); st=$?
  echo "$out" | grep -E "VIOLATION|ENGINE-ERROR|SELFTEST-MISS|NOTE" | cut -c1-300
  echo "$out" | tail -2 | sed "s/^/[exit $st] /"
  [ $st -eq 0 ] || rc=1
done
exit $rc
