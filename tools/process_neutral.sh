#!/bin/sh
# usage: process_neutral.sh <PROP>  - file /tmp/seed_out/N<PROP> as neutral/<PROP>_n and evaluate it
p=$1; d=/verif/neutral/${p}_n
mkdir -p $d
cp /tmp/seed_out/N$p/patch.diff /tmp/seed_out/N$p/meta.json $d/ 2>/dev/null
/verif/tools/eval_neutral.sh ${p}_n
