#!/bin/sh
# usage: process_neutral3.sh <PROP>  - file /tmp/seed_out/P<PROP> as neutral/<PROP>_p and evaluate it
p=$1; d=/verif/neutral/${p}_p
mkdir -p $d
cp /tmp/seed_out/P$p/patch.diff /tmp/seed_out/P$p/meta.json $d/ 2>/dev/null
/verif/tools/eval_neutral.sh ${p}_p
