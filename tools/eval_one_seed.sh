#!/bin/sh
# usage: eval_one_seed.sh <seed-name>   (applies seeded/<name>/patch.diff to /repo, runs the quick check of its property, reverts)
cd /verif
n=$1; prop=$(echo $n | cut -c1-3); d=seeded/$n
[ -n "$(git -C /repo status --short)" ] && { echo "/repo not clean"; exit 2; }
git -C /repo apply /verif/$d/patch.diff || { echo "$n: patch does not apply"; exit 2; }
out=$(bin/gocv check -property $prop -tier quick 2>&1)
git -C /repo checkout -- .
echo "$out" | grep -E "VIOLATION|ENGINE-ERROR" | sed 's/replay=[^ ]* //' | cut -c1-220 > $d/detection.txt
echo "$out" | tail -1 >> $d/detection.txt
if grep -q VIOLATION $d/detection.txt; then echo "$n: DETECTED ($(grep -c VIOLATION $d/detection.txt) obligations)"; else echo "$n: MISSED"; fi
head -5 $d/detection.txt
