#!/bin/sh
# usage: eval_one_seed.sh <seed-name> [property]
# Applies seeded/<name>/patch.diff to a scratch worktree of /repo (never to /repo itself), runs the
# quick check of the seed's property there (VERIF_REPO), records what was reported, removes the worktree.
cd /verif
n=$1; prop=${2:-$(echo $n | cut -c1-3)}; d=seeded/$n
wt=/var/tmp/seedeval_$n
git -C /repo worktree remove --force $wt 2>/dev/null
git -C /repo worktree add -q --detach $wt HEAD || exit 2
if ! git -C $wt apply /verif/$d/patch.diff; then echo "$n: patch does not apply"; git -C /repo worktree remove --force $wt; exit 2; fi
out=$(VERIF_EVIDENCE=/var/tmp/seedeval_evidence VERIF_REPO=$wt bin/gocv check -property $prop -tier quick 2>&1)
git -C /repo worktree remove --force $wt
echo "$out" | grep -E "VIOLATION|ENGINE-ERROR" | sed 's/replay=[^ ]* //' | cut -c1-220 > $d/detection.txt
echo "$out" | tail -1 >> $d/detection.txt
if grep -q VIOLATION $d/detection.txt; then echo "$n: DETECTED ($(grep -c VIOLATION $d/detection.txt) obligations)"; else echo "$n: MISSED"; fi
head -5 $d/detection.txt
